// Verus rendering of the abstract Soroban host (read-only part used by the gateway's proof
// validation).  THIS FILE IS THE TRUSTED BASE: every `external_body`, `uninterp` and `axiom`
// below is an assumed contract of the dependency (soroban-sdk / the host) and is listed by
// vcheck.py in the `trusted` array of its JSON output.
//
// Lines between `//@mode safety` / `//@mode notrap` and the next `//@mode all` are emitted only
// into the unit of that mode.  safety: a host trap is divergence (ensures only).  notrap: a host
// trap is an obligation (requires).
use vstd::prelude::*;
verus! {
// The host lives in its own module so that the unit's root module can `broadcast use` its two
// broadcast facts (Verus forbids a module-level `broadcast use` of the module's own items).
pub mod host {
use vstd::prelude::*;
use vstd::std_specs::iter::IteratorSpec;

// ---------- environment and storage (read-only rendering) ----------
pub struct Env { pub id: u64 }
pub struct Storage { pub env: Env }
pub struct Instance { pub env: Env }
pub struct Persistent { pub env: Env }
pub struct Temporary { pub env: Env }
pub struct Crypto { }
impl Env {
    pub fn storage(&self) -> (r: Storage) ensures r.env == *self { Storage { env: Env { id: self.id } } }
    pub fn crypto(&self) -> Crypto { Crypto { } }
}
impl Storage {
    pub fn instance(&self) -> (r: Instance) ensures r.env == self.env { Instance { env: Env { id: self.env.id } } }
    pub fn persistent(&self) -> (r: Persistent) ensures r.env == self.env { Persistent { env: Env { id: self.env.id } } }
    // a different storage class is a different (uninterpreted) map: a function that keeps a registry in
    // temporary storage fails the contracts, which speak about instance / persistent entries
    pub fn temporary(&self) -> (r: Temporary) ensures r.env == self.env { Temporary { env: Env { id: self.env.id } } }
}
// The storage content is an arbitrary (uninterpreted) function of the environment and the key:
// one proof covers every pre-state.  `get` is a pure read.
pub uninterp spec fn inst<K, V>(env: Env, k: K) -> Option<V>;
pub uninterp spec fn pers<K, V>(env: Env, k: K) -> Option<V>;
pub uninterp spec fn temp<K, V>(env: Env, k: K) -> Option<V>;
impl Instance {
    #[verifier::external_body]
    pub fn get<K, V>(&self, key: &K) -> (r: Option<V>) ensures r == inst::<K, V>(self.env, *key) { unimplemented!() }
}
impl Persistent {
    #[verifier::external_body]
    pub fn get<K, V>(&self, key: &K) -> (r: Option<V>) ensures r == pers::<K, V>(self.env, *key) { unimplemented!() }
}
impl Temporary {
    #[verifier::external_body]
    pub fn get<K, V>(&self, key: &K) -> (r: Option<V>) ensures r == temp::<K, V>(self.env, *key) { unimplemented!() }
}

//@mode safety
// ---------- traps (safety mode): a panic aborts and rolls back the frame => modelled as divergence ----------
pub trait Trap<T> {
    spec fn tv(self) -> Option<T>;
    fn trap_unwrap(self) -> (r: T) ensures self.tv() == Some(r);
    fn trap_expect(self, m: &str) -> (r: T) ensures self.tv() == Some(r);
}
impl<T> Trap<T> for Option<T> {
    open spec fn tv(self) -> Option<T> { self }
    #[verifier::external_body] fn trap_unwrap(self) -> (r: T) { self.unwrap() }
    #[verifier::external_body] fn trap_expect(self, m: &str) -> (r: T) { self.unwrap() }
}
//@mode all

// ---------- byte strings ----------
pub struct BytesN<const N: usize> { pub b: [u8; N] }
impl<const N: usize> BytesN<N> {
    pub open spec fn view(&self) -> Seq<u8> { self.b@ }
    #[verifier::external_body]
    pub fn from_array(env: &Env, a: &[u8; N]) -> (r: Self) ensures r@ == a@ { unimplemented!() }
    #[verifier::external_body]
    pub fn to_array(&self) -> (r: [u8; N]) ensures r@ == self@ { unimplemented!() }
    #[verifier::external_body]
    pub fn as_ref(&self) -> (r: &Bytes) ensures r@ == self@ { unimplemented!() }
}
impl<const N: usize> Clone for BytesN<N> {
    #[verifier::external_body]
    fn clone(&self) -> (r: Self) ensures r == *self { unimplemented!() }
}
// Host ordering of BytesN = byte-lexicographic ordering of the contents.
pub open spec fn lex_lt(a: Seq<u8>, b: Seq<u8>) -> bool
    decreases a.len()
{
    if b.len() == 0 { false }
    else if a.len() == 0 { true }
    else if a[0] != b[0] { a[0] < b[0] }
    else { lex_lt(a.drop_first(), b.drop_first()) }
}
impl<const N: usize> vstd::std_specs::cmp::PartialEqSpecImpl for BytesN<N> {
    open spec fn obeys_eq_spec() -> bool { true }
    open spec fn eq_spec(&self, o: &Self) -> bool { self@ == o@ }
}
impl<const N: usize> PartialEq for BytesN<N> {
    #[verifier::external_body]
    fn eq(&self, o: &Self) -> (r: bool) { unimplemented!() }
}
impl<const N: usize> vstd::std_specs::cmp::PartialOrdSpecImpl for BytesN<N> {
    open spec fn obeys_partial_cmp_spec() -> bool { true }
    open spec fn partial_cmp_spec(&self, o: &Self) -> Option<core::cmp::Ordering> {
        if lex_lt(self@, o@) { Some(core::cmp::Ordering::Less) }
        else if lex_lt(o@, self@) { Some(core::cmp::Ordering::Greater) }
        else { Some(core::cmp::Ordering::Equal) }
    }
}
impl<const N: usize> PartialOrd for BytesN<N> {
    #[verifier::external_body]
    fn partial_cmp(&self, o: &Self) -> (r: Option<core::cmp::Ordering>) { unimplemented!() }
}
pub struct Bytes { pub v: std::vec::Vec<u8> }
impl Bytes {
    pub open spec fn view(&self) -> Seq<u8> { self.v@ }
    #[verifier::external_body]
    pub fn extend_from_array<const N: usize>(&mut self, a: &[u8; N]) ensures final(self)@ == old(self)@ + a@ { unimplemented!() }
}
// `BytesN<N> -> Bytes` conversion keeps the contents.
pub uninterp spec fn bytes_of<const N: usize>(x: BytesN<N>) -> Bytes;
pub broadcast axiom fn bytes_of_view<const N: usize>(x: BytesN<N>) ensures #[trigger] bytes_of(x)@ == x@;
// two BytesN with the same contents are the same value (array extensionality; proved, not assumed)
pub broadcast proof fn bytesn_ext<const N: usize>(a: BytesN<N>, b: BytesN<N>)
    requires #[trigger] a@ == #[trigger] b@
    ensures a == b
{
    assert(a.b =~= b.b);
}
impl<const N: usize> vstd::std_specs::convert::FromSpecImpl<BytesN<N>> for Bytes {
    open spec fn obeys_from_spec() -> bool { true }
    open spec fn from_spec(x: BytesN<N>) -> Bytes { bytes_of(x) }
}
impl<const N: usize> From<BytesN<N>> for Bytes {
    #[verifier::external_body]
    fn from(x: BytesN<N>) -> (r: Bytes) { unimplemented!() }
}
pub struct Hash<const N: usize> { pub h: BytesN<N> }
impl<const N: usize> Hash<N> {
    pub fn to_bytes(&self) -> (r: BytesN<N>) ensures r == self.h { self.h.clone() }
}
impl<const N: usize> vstd::std_specs::convert::FromSpecImpl<Hash<N>> for BytesN<N> {
    open spec fn obeys_from_spec() -> bool { true }
    open spec fn from_spec(x: Hash<N>) -> BytesN<N> { x.h }
}
impl<const N: usize> From<Hash<N>> for BytesN<N> {
    fn from(x: Hash<N>) -> (r: BytesN<N>) { x.h }
}

// ---------- crypto: uninterpreted ----------
pub uninterp spec fn keccak(s: Seq<u8>) -> Seq<u8>;
pub uninterp spec fn sig_valid(pk: Seq<u8>, msg: Seq<u8>, sig: Seq<u8>) -> bool;
impl Crypto {
    #[verifier::external_body]
    pub fn keccak256(&self, b: &Bytes) -> (r: Hash<32>) ensures r.h@ == keccak(b@) { unimplemented!() }
//@mode safety
    // traps unless the signature is valid
    #[verifier::external_body]
    pub fn ed25519_verify(&self, pk: &BytesN<32>, msg: &Bytes, sig: &BytesN<64>)
        ensures sig_valid(pk@, msg@, sig@) { unimplemented!() }
//@mode notrap
    // traps unless the signature is valid: in no-trap mode the caller must prove validity
    #[verifier::external_body]
    pub fn ed25519_verify(&self, pk: &BytesN<32>, msg: &Bytes, sig: &BytesN<64>)
        requires sig_valid(pk@, msg@, sig@) { unimplemented!() }
//@mode all
}

// ---------- soroban Vec (shadows the std prelude's Vec inside the unit) ----------
pub struct Vec<T> { pub v: std::vec::Vec<T> }
impl<T> Vec<T> {
    pub open spec fn view(&self) -> Seq<T> { self.v@ }
    #[verifier::external_body]
    pub fn new(env: &Env) -> (r: Self) ensures r@ == Seq::<T>::empty() { unimplemented!() }
    #[verifier::external_body]
    pub fn env(&self) -> (r: &Env) { unimplemented!() }
    #[verifier::external_body]
    pub fn is_empty(&self) -> (r: bool) ensures r == (self@.len() == 0) { unimplemented!() }
    #[verifier::external_body]
    pub fn push_back(&mut self, t: T) ensures final(self)@ == old(self)@.push(t) { unimplemented!() }
    // by-value iteration over the elements, in order
    #[verifier::external_body]
    pub fn iter(&self) -> (r: std::vec::IntoIter<T>)
        ensures r.remaining() == self@, r.obeys_prophetic_iter_laws(), r.decrease() is Some { unimplemented!() }
}

// ---------- soroban String: abstract identity (only stored inside keys) ----------
pub struct String { pub id: u64 }

// ---------- XDR: uninterpreted function of the value ----------
pub trait ToXdr: Sized {
    spec fn xdr(self) -> Seq<u8>;
    fn to_xdr(self, env: &Env) -> (r: Bytes) ensures r@ == self.xdr();
}

} // mod host
pub use host::{Env, Storage, Instance, Persistent, Crypto, BytesN, Bytes, Hash, Vec, String, ToXdr};
pub use host::{inst, pers, keccak, sig_valid, lex_lt, bytes_of};
//@mode safety
pub use host::Trap;
//@mode all
broadcast use {host::bytes_of_view, host::bytesn_ext};
} // verus!
