#!/usr/bin/env python3
"""Mechanical extractor for the Verus back end.

On every run the REAL files under --repo are read, the functions / types named in
contracts.py are located by brace matching on the real text, the fixed rewrites R1..R5 are
applied, the side-car clauses (contracts.py; keyed by function name and loop ordinal) are
spliced in and one self-contained Verus file is written.  No function body is stored here
or in contracts.py: the text between a function's braces is the repository's text modulo
the listed rewrites, so an edit of /repo flows into the next run.

Exit codes (when run as a program): 0 written, 2 lost anchor / unsupported shape.

Marker comments in the generated file (consumed by vcheck.py to attribute Verus
diagnostics; never by line number of the source):
    //@fn-begin NAME MODE SRC START END      //@fn-end NAME
    //@req NAME                  a requires clause of NAME
    //@ens NAME OBLIGATION       an ensures clause of NAME belonging to OBLIGATION
    //@inv NAME LOOP OBL[,OBL]   an invariant clause of loop LOOP; failing it fails these obligations
    //@ins                       a line inserted by the extractor (not repository text)
    //@probe NAME MODE KIND      a vacuity probe (expected NOT to verify)
    //@region shim|macro|types|clone|prelude
"""
import argparse
import os
import re
import sys

HERE = os.path.dirname(os.path.abspath(__file__))
sys.path.insert(0, HERE)
import contracts  # noqa: E402

REWRITES = [
    "R1 types: every attribute line (#[contracttype], #[contracterror], #[repr], #[derive(..)]) in front of an "
    "extracted struct/enum is dropped; for each type whose dropped derive list contained Clone an "
    "`impl Clone` with `ensures r == *self` (external_body) is emitted; `#[macro_export]` dropped from ensure!",
    "R2 signatures: `-> T` becomes `-> (r: T)` followed by the side-car requires/ensures of the unit's mode",
    "R3 loops: `for PAT in EXPR {` becomes `for PAT in it: EXPR invariant <side-car> {`; optional side-car "
    "`proof { .. }` block as first statement of the loop body and optional one right after the loop; keyed by "
    "(function, loop ordinal)",
    "R4 traps: safety mode `.unwrap()` -> `.trap_unwrap()`, `.expect(s)` -> `.trap_expect(s)`; no-trap mode: "
    "left as vstd's unwrap/expect (requires is_some)",
    "R5 imports: `use` lines are not carried over; the shim prelude (shim.rs) is emitted instead "
    "(the shim names its soroban vector type `Vec`, shadowing the std prelude, so no type rename is needed)",
]


class LostAnchor(Exception):
    pass


# ----------------------------------------------------------------------------------------------
# lexical helpers
# ----------------------------------------------------------------------------------------------
def mask(text):
    """Return text with comments, string and char literals blanked (same length, newlines kept)."""
    out = list(text)
    i, n = 0, len(text)

    def blank(a, b):
        for k in range(a, b):
            if out[k] != "\n":
                out[k] = " "

    while i < n:
        c = text[i]
        if text.startswith("//", i):
            j = text.find("\n", i)
            j = n if j < 0 else j
            blank(i, j)
            i = j
        elif text.startswith("/*", i):
            depth, j = 1, i + 2
            while j < n and depth:
                if text.startswith("/*", j):
                    depth += 1
                    j += 2
                elif text.startswith("*/", j):
                    depth -= 1
                    j += 2
                else:
                    j += 1
            blank(i, j)
            i = j
        elif c == '"' or (c == "r" and re.match(r'r#*"', text[i:]) and (i == 0 or not (text[i - 1].isalnum() or text[i - 1] == "_"))):
            if c == "r":
                m = re.match(r'r(#*)"', text[i:])
                close = '"' + m.group(1)
                j = text.find(close, i + len(m.group(0)))
                j = n if j < 0 else j + len(close)
                blank(i + len(m.group(0)), j - len(close))
            else:
                j = i + 1
                while j < n and text[j] != '"':
                    j += 2 if text[j] == "\\" else 1
                j = min(j + 1, n)
                blank(i + 1, j - 1)
            i = j
        elif c == "'":
            m = re.match(r"'(\\.[^']*|[^'\\])'", text[i:])
            if m:
                blank(i + 1, i + len(m.group(0)) - 1)
                i += len(m.group(0))
            else:
                i += 1  # lifetime
        else:
            i += 1
    return "".join(out)


OPEN, CLOSE = "([{", ")]}"


def match_close(masked, i):
    """Index of the bracket closing the one at masked[i]."""
    depth = 0
    for j in range(i, len(masked)):
        ch = masked[j]
        if ch in OPEN:
            depth += 1
        elif ch in CLOSE:
            depth -= 1
            if depth == 0:
                return j
    raise LostAnchor("unbalanced bracket at offset %d" % i)


def brace_depths(masked):
    d, out = 0, []
    for ch in masked:
        if ch == "}":
            d -= 1
        out.append(d)
        if ch == "{":
            d += 1
    return out


def line_of(text, idx):
    return text.count("\n", 0, idx) + 1


def line_start(text, idx):
    return text.rfind("\n", 0, idx) + 1


def split_top(s, sep=","):
    """Split on sep at bracket depth 0 (also counting <>)."""
    parts, depth, cur = [], 0, ""
    prev = ""
    for ch in s:
        if ch in "([{<":
            depth += 1
        elif ch in ")]}":
            depth -= 1
        elif ch == ">" and prev != "-":
            depth -= 1
        if ch == sep and depth == 0:
            parts.append(cur)
            cur = ""
        else:
            cur += ch
        prev = ch
    if cur.strip():
        parts.append(cur)
    return parts


# ----------------------------------------------------------------------------------------------
# locating items in a real source file
# ----------------------------------------------------------------------------------------------
class Source:
    def __init__(self, repo, rel):
        self.rel = rel
        self.path = os.path.join(repo, rel)
        try:
            with open(self.path) as f:
                self.text = f.read()
        except OSError as e:
            raise LostAnchor("cannot read %s: %s" % (self.path, e))
        self.masked = mask(self.text)
        self.depth = brace_depths(self.masked)

    def impl_range(self, ty):
        for m in re.finditer(r"\bimpl\s+%s\s*\{" % re.escape(ty), self.masked):
            if self.depth[m.start()] == 0:
                o = m.end() - 1
                return o + 1, match_close(self.masked, o)
        raise LostAnchor("impl %s not found in %s" % (ty, self.rel))

    def find_fn(self, name, impl=None):
        lo, hi, want = 0, len(self.masked), 0
        if impl:
            lo, hi = self.impl_range(impl)
            want = 1
        hits = [m for m in re.finditer(r"\bfn\s+%s\b" % re.escape(name), self.masked[lo:hi]) if self.depth[lo + m.start()] == want]
        if len(hits) != 1:
            raise LostAnchor("function %s%s: %d definitions found in %s" % (impl + "::" if impl else "", name, len(hits), self.rel))
        fn_kw = lo + hits[0].start()
        start = line_start(self.text, fn_kw)
        if self.masked[start:fn_kw].strip() not in ("", "pub", "pub(crate)", "pub(super)"):
            raise LostAnchor("function %s: unsupported qualifiers %r" % (name, self.masked[start:fn_kw].strip()))
        po = self.masked.index("(", fn_kw)
        if "<" in self.masked[fn_kw:po]:
            raise LostAnchor("function %s: generic functions are not supported" % name)
        pc = match_close(self.masked, po)
        bo = self.masked.index("{", pc)
        tail = self.masked[pc + 1:bo]
        if "where" in tail.split():
            raise LostAnchor("function %s: where clauses are not supported" % name)
        m = re.match(r"\s*->\s*(.*\S)\s*$", tail, re.S)
        if not m:
            raise LostAnchor("function %s: no return type (unsupported shape)" % name)
        arrow = pc + 1 + tail.index("->")
        bc = match_close(self.masked, bo)
        params, by_ref = [], []
        for p in split_top(self.masked[po + 1:pc]):
            p = p.strip()
            if not p:
                continue
            if re.fullmatch(r"&?\s*(mut\s+)?self", p):
                params.append("self")
                by_ref.append(False)  # `self` is used as is in the contracts
            else:
                pm = re.match(r"(mut\s+)?(\w+)\s*:\s*(&)?", p)
                if not pm:
                    raise LostAnchor("function %s: unsupported parameter pattern %r" % (name, p))
                params.append(pm.group(2))
                by_ref.append(bool(pm.group(3)))
        return dict(by_ref=by_ref, start=start, arrow=arrow, ret=self.text[pc + 1 + m.start(1):pc + 1 + m.end(1)],
                    body_open=bo, body_close=bc, params=params,
                    lines=[line_of(self.text, start), line_of(self.text, bc)])

    def find_type(self, name):
        hits = [m for m in re.finditer(r"\bpub\s+(struct|enum)\s+%s\b" % re.escape(name), self.masked) if self.depth[m.start()] == 0]
        if len(hits) != 1:
            raise LostAnchor("type %s: %d definitions found in %s" % (name, len(hits), self.rel))
        s = hits[0].start()
        bo = self.masked.index("{", s)
        bc = match_close(self.masked, bo)
        # attribute / doc lines directly in front of the item
        attrs, ls = [], line_start(self.text, s)
        while ls > 0:
            pls = line_start(self.text, ls - 1)
            ln = self.text[pls:ls - 1].strip()
            if ln.startswith("#[") or ln.startswith("//"):
                attrs.append(ln)
                ls = pls
            else:
                break
        derives = []
        for a in attrs:
            dm = re.match(r"#\[derive\((.*)\)\]", a)
            if dm:
                derives += [d.strip() for d in dm.group(1).split(",")]
        return dict(text=self.text[s:bc + 1], derives=derives, lines=[line_of(self.text, s), line_of(self.text, bc)])

    def find_macro(self, name):
        m = re.search(r"\bmacro_rules!\s+%s\s*\{" % re.escape(name), self.masked)
        if not m:
            raise LostAnchor("macro %s not found in %s" % (name, self.rel))
        bc = match_close(self.masked, m.end() - 1)
        return dict(text=self.text[m.start():bc + 1], lines=[line_of(self.text, m.start()), line_of(self.text, bc)])


# ----------------------------------------------------------------------------------------------
# rewriting one function
# ----------------------------------------------------------------------------------------------
def tag_lines(s, marker):
    return "\n".join((ln + "  " + marker) if ln.strip() else ln for ln in s.split("\n"))


def subst(clause, names, where):
    def rep(m):
        k = m.group(1)
        if k not in names:
            raise LostAnchor("%s: side-car placeholder $%s has no binding" % (where, k))
        return names[k]
    return re.sub(r"\$(\w+)", rep, clause)


def mode_pick(v, mode):
    """Side-car values may be a plain value or a dict keyed by mode."""
    if isinstance(v, dict) and (set(v) & {"safety", "notrap", "all"}):
        return v.get(mode, v.get("all"))
    return v


def find_loops(body_m):
    """[(for_idx, in_end_idx, body_open_idx, body_close_idx)] in source order."""
    for kw in ("while", "loop"):
        if re.search(r"\b%s\b" % kw, body_m):
            raise LostAnchor("`%s` loop present: no side-car support (unsupported shape)" % kw)
    loops = []
    for m in re.finditer(r"\bfor\b", body_m):
        i, depth, in_end = m.end(), 0, None
        while i < len(body_m):
            ch = body_m[i]
            if ch in OPEN:
                depth += 1
            elif ch in CLOSE:
                depth -= 1
            elif depth == 0 and re.match(r"\bin\b", body_m[i:]) and not (body_m[i - 1].isalnum() or body_m[i - 1] == "_"):
                in_end = i + 2
                break
            i += 1
        if in_end is None:
            raise LostAnchor("for loop without `in`")
        i, depth = in_end, 0
        while i < len(body_m):
            ch = body_m[i]
            if ch == "{" and depth == 0:
                break
            if ch in OPEN:
                depth += 1
            elif ch in CLOSE:
                depth -= 1
            i += 1
        else:
            raise LostAnchor("for loop without body")
        loops.append((m.start(), in_end, i, match_close(body_m, i)))
    return loops


def rewrite_fn(src, spec, mode, drop, stub):
    name = spec["name"]
    f = src.find_fn(spec["fn"], spec.get("impl"))
    text = src.text
    # --- bindings for $placeholders: parameters by position, locals by initialiser pattern
    canon = spec["params"]
    if len(canon) != len(f["params"]):
        raise LostAnchor("function %s: %d parameters expected, %d found" % (name, len(canon), len(f["params"])))
    # a $parameter in a contract clause denotes the parameter's VALUE: `(*p)` where the function takes it by
    # reference, `p` where it takes it by value — so that switching between the two is not a lost anchor
    names = {c: ("(*%s)" % p if r else p) for c, p, r in zip(canon, f["params"], f["by_ref"])}
    body = text[f["body_open"] + 1:f["body_close"]]
    body_m = mask(body)
    for key, pat in spec.get("locals", {}).items():
        hits = re.findall(pat, body_m)
        if len(hits) != 1:
            raise LostAnchor("function %s: local $%s (pattern %r) matched %d times" % (name, key, pat, len(hits)))
        names[key] = hits[0]
    where = "function " + name

    # --- R4 on the body
    if mode == "safety":
        edits = [(m.start(), m.end(), ".trap_unwrap()") for m in re.finditer(r"\.\s*unwrap\s*\(\s*\)", body_m)]
        edits += [(m.start(), m.end(), ".trap_expect(") for m in re.finditer(r"\.\s*expect\s*\(", body_m)]
        for a, b, new in sorted(edits, reverse=True):
            lead = re.match(r"\.\s*", body[a:b]).group(0)  # keep layout (the dot may be on its own line)
            body = body[:a] + lead + new[1:] + body[b:]
        body_m = mask(body)

    # --- R3 on the body
    loops = find_loops(body_m)
    side = spec.get("loops", {})
    if len(loops) != len(side):
        raise LostAnchor("function %s: %d for-loops found, side-car has %d" % (name, len(loops), len(side)))
    inserts = []  # (offset, text)
    for k, (for_i, in_end, bo, bc) in enumerate(loops):
        sc = side[k]
        inv_lines = []
        for inv in sc["invariants"]:
            if "modes" in inv and mode not in inv["modes"]:
                continue
            in_mode = [e["id"] for e in spec["ensures"] if mode in e["modes"]]
            obls = [o for o in inv.get("for", in_mode) if o in in_mode]
            if obls and all(o in drop for o in obls):
                continue
            inv_lines.append(tag_lines("        " + subst(inv["text"], names, where) + ",", "//@inv %s %d %s" % (name, k, ",".join(obls))))
        inserts.append((in_end, " it:"))
        if not inv_lines:  # only in diagnostic re-runs (--drop)
            inv_lines = ["        true,  //@ins"]
        inserts.append((bo, "\n    invariant  //@ins\n" + "\n".join(inv_lines) + "\n    "))
        bp = mode_pick(sc.get("body_proof"), mode)
        if bp:
            inserts.append((bo + 1, "\n" + tag_lines("        proof { " + subst(bp, names, where) + " }", "//@ins")))
        ap = mode_pick(sc.get("after_proof"), mode)
        if ap:
            inserts.append((bc + 1, "\n" + tag_lines("    proof { " + subst(ap, names, where) + " }", "//@ins")))
    for off, ins in sorted(inserts, key=lambda t: -t[0]):
        body = body[:off] + ins + body[off:]

    # --- R2 on the signature
    sig = text[f["start"]:f["arrow"]]
    out = []
    out.append("//@fn-begin %s %s %s %d %d" % (name, mode, src.rel, f["lines"][0], f["lines"][1]))
    if name in stub:
        out.append("#[verifier::external_body]  //@ins (diagnostic re-run only: body not checked, no ensures)")
    head = sig + "-> (r: " + f["ret"] + ")"
    clauses = []
    req = [subst(c, names, where) for c in mode_pick(spec.get("requires", []), mode) or []]
    if req:
        clauses.append("    requires  //@ins")
        clauses += [tag_lines("        " + c + ",", "//@req %s" % name) for c in req]
    ens = []
    for e in spec["ensures"]:
        if mode not in e["modes"] or e["id"] in drop or name in stub:
            continue
        for c in e["clauses"]:
            ens.append(tag_lines("        " + subst(c, names, where) + ",", "//@ens %s %s" % (name, e["id"])))
    if ens:
        clauses.append("    ensures  //@ins")
        clauses += ens
    out.append(head)
    out += clauses
    out.append("{  //@ins" if clauses else "{")
    # first body line continues right after '{' in the source (normally just a newline)
    out_text = "\n".join(out)
    if name in stub:
        body = "\n    unimplemented!()\n"
    out_text += body + "}\n//@fn-end %s\n" % name
    return out_text, f, req, names


# ----------------------------------------------------------------------------------------------
# whole unit
# ----------------------------------------------------------------------------------------------
def shim_text(mode):
    with open(os.path.join(HERE, "shim.rs")) as fh:
        lines = fh.read().split("\n")
    cur, out = "all", []
    for ln in lines:
        m = re.match(r"\s*//@mode\s+(\w+)", ln)
        if m:
            cur = m.group(1)
            continue
        if cur in ("all", mode):
            out.append(ln)
    return "\n".join(out)


def generate(repo, mode, drop=frozenset(), stub=frozenset()):
    """mode: safety | notrap | vacuity.  Returns (text, functions-info)."""
    unit_mode = "notrap" if mode == "vacuity" else mode
    srcs = {}

    def src(rel):
        if rel not in srcs:
            srcs[rel] = Source(repo, rel)
        return srcs[rel]

    out = ["// GENERATED by /verif/verus/extract.py from %s -- mode %s -- do not edit" % (repo, mode)]
    out.append("//@region shim")
    out.append(shim_text(unit_mode))
    out.append("verus! {")
    out.append("//@region macro")
    mac = src(contracts.ENSURE_MACRO["file"]).find_macro(contracts.ENSURE_MACRO["name"])
    out.append("// %s:%d-%d" % (contracts.ENSURE_MACRO["file"], mac["lines"][0], mac["lines"][1]))
    out.append(mac["text"])
    out.append("pub(crate) use %s;" % contracts.ENSURE_MACRO["name"])
    out.append("//@region types")
    clones = []
    for t in contracts.TYPES:
        ty = src(t["file"]).find_type(t["name"])
        out.append("// %s:%d-%d" % (t["file"], ty["lines"][0], ty["lines"][1]))
        out.append(ty["text"])
        if "Clone" in ty["derives"]:
            clones.append(t["name"])
    out.append("//@region clone")
    for c in clones:
        out.append("impl Clone for %s { #[verifier::external_body] fn clone(&self) -> (r: Self) ensures r == *self { unimplemented!() } }" % c)
    out.append("//@region prelude")
    out.append(contracts.PRELUDE)
    info, probes = [], []
    groups = []  # consecutive functions of the same impl share one impl block
    for spec in contracts.FUNCTIONS:
        if unit_mode not in spec["modes"]:
            continue
        if mode == "vacuity":
            # only the signatures' requires are needed
            for m in spec["modes"]:
                s = src(spec["file"])
                f = s.find_fn(spec["fn"], spec.get("impl"))
                names = {c: ("(*%s)" % p if r else p) for c, p, r in zip(spec["params"], f["params"], f["by_ref"])}
                req = [subst(c, names, spec["name"]) for c in mode_pick(spec.get("requires", []), m) or []]
                if not req:
                    continue
                plist = s.text[s.masked.index("(", f["start"]) + 1:match_close(s.masked, s.masked.index("(", f["start"]))]
                if spec.get("impl"):
                    plist = re.sub(r"&?\s*self\b", "self_: %s" % spec["impl"], plist, count=1)
                    req = [re.sub(r"\bself\b", "self_", c) for c in req]
                extra = [("requires", None)] + [("antecedent", subst(a, names, spec["name"])) for a in spec.get("vacuity_extra", {}).get(m, [])]
                for kind, ante in extra:
                    pname = "probe_%s_%s_%s" % (m, re.sub(r"\W+", "_", spec["name"]), kind)
                    rq = req + ([re.sub(r"\bself\b", "self_", ante)] if ante and spec.get("impl") else ([ante] if ante else []))
                    probes.append("//@probe %s %s %s\nproof fn %s(%s)\n    requires\n%s\n    ensures false,  //@probe-ens %s %s %s\n{ }\n//@probe-end" % (
                        spec["name"], m, kind, pname, plist, "\n".join("        " + c + "," for c in rq), spec["name"], m, kind))
            continue
        t, f, req, names = rewrite_fn(src(spec["file"]), spec, mode, drop, stub)
        info.append(dict(name=spec["name"], src=spec["file"], lines=f["lines"], mode=mode))
        if groups and groups[-1][0] == spec.get("impl"):
            groups[-1][1].append(t)
        else:
            groups.append((spec.get("impl"), [t]))
    for impl, texts in groups:
        if impl:
            out.append("impl %s {  //@ins" % impl)
            out += texts
            out.append("}  //@ins")
        else:
            out += texts
    if mode == "vacuity":
        out.append("//@region probes")
        out += probes
    else:
        out.append("//@region witnesses")
        out.append(contracts.WITNESSES)
    out.append("} // verus!")
    out.append("fn main() {}")
    return "\n".join(out) + "\n", info


def main():
    ap = argparse.ArgumentParser()
    ap.add_argument("--repo", default="/repo")
    ap.add_argument("--mode", choices=["safety", "notrap", "vacuity"], required=True)
    ap.add_argument("--out", required=True)
    ap.add_argument("--drop", action="append", default=[], help="(diagnostic) leave out the clauses of this obligation")
    ap.add_argument("--stub", action="append", default=[], help="(diagnostic) do not check this function's body")
    a = ap.parse_args()
    try:
        text, _ = generate(a.repo, a.mode, frozenset(a.drop), frozenset(a.stub))
    except LostAnchor as e:
        print("extract.py: lost anchor / unsupported shape: %s" % e, file=sys.stderr)
        return 2
    with open(a.out, "w") as fh:
        fh.write(text)
    print("rewrites applied:")
    for r in REWRITES:
        print("  " + r)
    return 0


if __name__ == "__main__":
    sys.exit(main())
