"""Side-car contracts for the Verus back end (C01 / C03 / C08, gateway proof validation).

Nothing in this file is keyed by line number.  Keys are:
  * function name (+ `impl` type) -- located in the real file by extract.py;
  * loop ordinal inside the function (0 = first `for` in source order);
  * `$name` placeholders: parameters are bound BY POSITION to the names listed in `params`
    (so renaming a parameter in /repo does not break the side-car); locals are bound by the
    shape of their initialiser (`locals`: regex with one group, must match exactly once).

No function body is stored here.  Every `ensures` group carries an obligation id; every loop
invariant says which obligations rest on it (`for`; default: all obligations of the function).

Modes: "safety" (host traps = divergence) and "notrap" (host traps = proof obligations).
"""

GATEWAY = "contracts/axelar-gateway/src/"
AUTH = GATEWAY + "auth.rs"
TYPES_RS = GATEWAY + "types.rs"
STORAGE_RS = GATEWAY + "storage_types.rs"
ERROR_RS = GATEWAY + "error.rs"

ENSURE_MACRO = dict(name="ensure", file="packages/axelar-soroban-std/src/error.rs")

# type definitions extracted from the real files (R1 applied)
TYPES = [
    dict(name="ContractError", file=ERROR_RS),
    dict(name="MessageApprovalKey", file=STORAGE_RS),
    dict(name="DataKey", file=STORAGE_RS),
    dict(name="WeightedSigner", file=TYPES_RS),
    dict(name="WeightedSigners", file=TYPES_RS),
    dict(name="ProofSignature", file=TYPES_RS),
    dict(name="ProofSigner", file=TYPES_RS),
    dict(name="Proof", file=TYPES_RS),
    dict(name="CommandType", file=TYPES_RS),
]

# number of items Verus must report (verified + errors) per unit: a guard against silently
# skipped items.  Changes only when shim.rs / this file change, never with an edit of /repo.
EXPECTED_ITEMS = {"safety": 35, "notrap": 32, "vacuity": 26}

BOTH = ["safety", "notrap"]
SAFETY = ["safety"]
NOTRAP = ["notrap"]

# ------------------------------------------------------------------------------------------------
# specification vocabulary + lemmas (emitted verbatim into every unit).  `uninterp` / external_body
# items here are part of the trusted base and are listed by vcheck.py's scan.
# ------------------------------------------------------------------------------------------------
PRELUDE = r"""
// ---- XDR of the two values that get hashed: uninterpreted functions of the VALUE (views) ----
pub uninterp spec fn xdr_ws(signers: Seq<WeightedSigner>, threshold: u128, nonce: Seq<u8>) -> Seq<u8>;
pub uninterp spec fn xdr_cmd_ws(cmd: CommandType, signers: Seq<WeightedSigner>, threshold: u128, nonce: Seq<u8>) -> Seq<u8>;
impl ToXdr for WeightedSigners {
    open spec fn xdr(self) -> Seq<u8> { xdr_ws(self.signers@, self.threshold, self.nonce@) }
    #[verifier::external_body] fn to_xdr(self, env: &Env) -> (r: Bytes) { unimplemented!() }
}
impl ToXdr for (CommandType, WeightedSigners) {
    open spec fn xdr(self) -> Seq<u8> { xdr_cmd_ws(self.0, self.1.signers@, self.1.threshold, self.1.nonce@) }
    #[verifier::external_body] fn to_xdr(self, env: &Env) -> (r: Bytes) { unimplemented!() }
}

// ---- the declared signer set of a proof and its hash ----
pub open spec fn proof_set(s: Seq<ProofSigner>) -> Seq<WeightedSigner> { s.map_values(|ps: ProofSigner| ps.signer) }
pub open spec fn ws_hash(signers: Seq<WeightedSigner>, threshold: u128, nonce: Seq<u8>) -> Seq<u8> { keccak(xdr_ws(signers, threshold, nonce)) }
pub open spec fn proof_hash(p: Proof) -> Seq<u8> { ws_hash(proof_set(p.signers@), p.threshold, p.nonce@) }

// ---- storage vocabulary ----
pub open spec fn cur_epoch(env: Env) -> u64 { inst::<DataKey, u64>(env, DataKey::Epoch).unwrap() }
pub open spec fn retention(env: Env) -> u64 { inst::<DataKey, u64>(env, DataKey::PreviousSignerRetention).unwrap() }
pub open spec fn domain(env: Env) -> Seq<u8> { inst::<DataKey, BytesN<32>>(env, DataKey::DomainSeparator).unwrap()@ }
pub open spec fn reg_epoch(env: Env, hb: BytesN<32>) -> Option<u64> { pers::<DataKey, u64>(env, DataKey::EpochBySignersHash(hb)) }
pub open spec fn digest(env: Env, signers_hash: Seq<u8>, data_hash: Seq<u8>) -> Seq<u8> { keccak(domain(env) + signers_hash + data_hash) }

// gateway invariant I-GW (established by the constructor / preserved by rotate_signers: back end K)
pub open spec fn gw_epochs_in_range(env: Env) -> bool {
    inst::<DataKey, u64>(env, DataKey::Epoch) is Some
    ==> forall|h: BytesN<32>| (#[trigger] reg_epoch(env, h)) matches Some(e) ==> 1 <= e <= cur_epoch(env)
}
pub open spec fn gw_keys_present(env: Env) -> bool {
    inst::<DataKey, u64>(env, DataKey::Epoch) is Some
    && inst::<DataKey, u64>(env, DataKey::PreviousSignerRetention) is Some
    && inst::<DataKey, BytesN<32>>(env, DataKey::DomainSeparator) is Some
}

// ---- weights, signatures, quorum ----
pub open spec fn signed_weight(ps: ProofSigner) -> int { if ps.signature is Signed { ps.signer.weight as int } else { 0 } }
pub open spec fn signed_sum(s: Seq<ProofSigner>) -> int
    decreases s.len()
{
    if s.len() == 0 { 0 } else { signed_sum(s.drop_last()) + signed_weight(s.last()) }
}
pub open spec fn weight_sum(s: Seq<WeightedSigner>) -> int
    decreases s.len()
{
    if s.len() == 0 { 0 } else { weight_sum(s.drop_last()) + s.last().weight as int }
}
pub open spec fn sigs_ok(s: Seq<ProofSigner>, msg: Seq<u8>) -> bool {
    forall|i: int| 0 <= i < s.len() && (#[trigger] s[i]).signature is Signed
        ==> sig_valid(s[i].signer.signer@, msg, s[i].signature->Signed_0@)
}
pub open spec fn quorum(s: Seq<ProofSigner>, threshold: u128, msg: Seq<u8>) -> bool {
    exists|k: int| 0 <= k <= s.len() && #[trigger] signed_sum(s.take(k)) >= threshold && sigs_ok(s.take(k), msg)
}

// ---- byte-lexicographic order helpers (lex_lt itself is in the shim: it is the host's ordering) ----
pub open spec fn zeros32() -> Seq<u8> { Seq::new(32, |i: int| 0u8) }
pub open spec fn keys_increasing(s: Seq<WeightedSigner>) -> bool {
    forall|i: int| 0 < i < s.len() ==> lex_lt((#[trigger] s[i - 1]).signer@, s[i].signer@)
}
pub open spec fn weights_nonzero(s: Seq<WeightedSigner>) -> bool {
    forall|i: int| 0 <= i < s.len() ==> (#[trigger] s[i]).weight != 0
}

// ---- lemmas (proved, not assumed) ----
pub proof fn lemma_signed_sum_step(s: Seq<ProofSigner>, i: int)
    requires 0 <= i < s.len()
    ensures signed_sum(s.take(i + 1)) == signed_sum(s.take(i)) + signed_weight(s[i])
{
    assert(s.take(i + 1).drop_last() =~= s.take(i));
    assert(s.take(i + 1).last() == s[i]);
}
pub proof fn lemma_weight_sum_step(s: Seq<WeightedSigner>, i: int)
    requires 0 <= i < s.len()
    ensures weight_sum(s.take(i + 1)) == weight_sum(s.take(i)) + s[i].weight as int
{
    assert(s.take(i + 1).drop_last() =~= s.take(i));
    assert(s.take(i + 1).last() == s[i]);
}
pub proof fn lemma_signed_sum_nonneg(s: Seq<ProofSigner>)
    ensures signed_sum(s) >= 0
    decreases s.len()
{
    if s.len() > 0 { lemma_signed_sum_nonneg(s.drop_last()); }
}
// signed_sum(take(k)) <= signed_sum(all)
pub proof fn lemma_signed_sum_take_le(s: Seq<ProofSigner>, k: int)
    requires 0 <= k <= s.len()
    ensures signed_sum(s.take(k)) <= signed_sum(s)
    decreases s.len() - k
{
    if k == s.len() {
        assert(s.take(k) =~= s);
    } else {
        lemma_signed_sum_take_le(s, k + 1);
        lemma_signed_sum_step(s, k);
    }
}
// signed_sum(all) <= sum of all weights of the declared set
pub proof fn lemma_signed_le_weight(s: Seq<ProofSigner>)
    ensures signed_sum(s) <= weight_sum(proof_set(s))
    decreases s.len()
{
    if s.len() > 0 {
        lemma_signed_le_weight(s.drop_last());
        assert(proof_set(s).drop_last() =~= proof_set(s.drop_last()));
        assert(proof_set(s).last() == s.last().signer);
    }
}
// lex_lt is a strict order: adjacent-increasing keys are pairwise distinct
pub proof fn lemma_lex_irrefl(a: Seq<u8>)
    ensures !lex_lt(a, a)
    decreases a.len()
{
    if a.len() > 0 { lemma_lex_irrefl(a.drop_first()); }
}
pub proof fn lemma_lex_trans(a: Seq<u8>, b: Seq<u8>, c: Seq<u8>)
    requires lex_lt(a, b), lex_lt(b, c)
    ensures lex_lt(a, c)
    decreases a.len()
{
    if a.len() > 0 && b.len() > 0 && c.len() > 0 && a[0] == b[0] && b[0] == c[0] {
        lemma_lex_trans(a.drop_first(), b.drop_first(), c.drop_first());
    }
}
pub proof fn lemma_increasing_pairwise(s: Seq<WeightedSigner>, i: int, j: int)
    requires keys_increasing(s), 0 <= i < j < s.len()
    ensures lex_lt(s[i].signer@, s[j].signer@), s[i].signer@ != s[j].signer@
    decreases j - i
{
    if j == i + 1 {
        assert(lex_lt(s[j - 1].signer@, s[j].signer@));
    } else {
        lemma_increasing_pairwise(s, i, j - 1);
        assert(lex_lt(s[j - 1].signer@, s[j].signer@));
        lemma_lex_trans(s[i].signer@, s[j - 1].signer@, s[j].signer@);
    }
    lemma_lex_irrefl(s[i].signer@);
}
"""

# ------------------------------------------------------------------------------------------------
# witnesses: the data-level hypotheses used in requires / antecedents are satisfiable
# ------------------------------------------------------------------------------------------------
WITNESSES = r"""
// Vacuity guard, part 1 (part 2 = the `ensures false` probes of the vacuity unit, which must NOT verify):
// the data-level hypotheses / conclusions used by the contracts have models.  `sig_valid` and the storage
// are uninterpreted, so the witnesses are parametric in one valid signature / one non-zero key.
pub open spec fn ones32() -> Seq<u8> { Seq::new(32, |i: int| 1u8) }
proof fn witness_lex_order()
    ensures lex_lt(zeros32(), ones32()), !lex_lt(ones32(), zeros32()), !lex_lt(zeros32(), zeros32())
{
    reveal_with_fuel(lex_lt, 2);
    lemma_lex_irrefl(zeros32());
}
// C03 conclusion is satisfiable: a one-element set with a non-zero key
proof fn witness_wellformed_set(k: BytesN<32>)
    requires lex_lt(zeros32(), k@)
    ensures ({
        let s = seq![WeightedSigner { signer: k, weight: 5 }];
        s.len() > 0 && lex_lt(zeros32(), s[0].signer@) && keys_increasing(s) && weights_nonzero(s)
        && weight_sum(s) <= u128::MAX && 0 < 3u128 <= weight_sum(s)
    })
{
    let s = seq![WeightedSigner { signer: k, weight: 5 }];
    assert(s.drop_last() =~= Seq::<WeightedSigner>::empty());
    reveal_with_fuel(weight_sum, 2);
}
// C01 hypotheses (no-trap requires + completeness antecedent) and the quorum conclusion are satisfiable
proof fn witness_honest_proof(k: BytesN<32>, sg: BytesN<64>, msg: Seq<u8>)
    requires sig_valid(k@, msg, sg@)
    ensures ({
        let s = seq![ProofSigner { signer: WeightedSigner { signer: k, weight: 5 }, signature: ProofSignature::Signed(sg) }];
        weight_sum(proof_set(s)) <= u128::MAX && sigs_ok(s, msg) && signed_sum(s) >= 3u128 && quorum(s, 3u128, msg)
    })
{
    let s = seq![ProofSigner { signer: WeightedSigner { signer: k, weight: 5 }, signature: ProofSignature::Signed(sg) }];
    assert(s.drop_last() =~= Seq::<ProofSigner>::empty());
    assert(proof_set(s).drop_last() =~= Seq::<WeightedSigner>::empty());
    reveal_with_fuel(weight_sum, 2);
    reveal_with_fuel(signed_sum, 2);
    assert(s.take(1) =~= s);
    assert(signed_sum(s.take(1)) >= 3u128 && sigs_ok(s.take(1), msg));
}
// ... and so is the "below threshold" side (an unsigned entry)
proof fn witness_below_threshold(k: BytesN<32>, msg: Seq<u8>)
    ensures ({
        let s = seq![ProofSigner { signer: WeightedSigner { signer: k, weight: 5 }, signature: ProofSignature::Unsigned }];
        sigs_ok(s, msg) && signed_sum(s) < 3u128
    })
{
    let s = seq![ProofSigner { signer: WeightedSigner { signer: k, weight: 5 }, signature: ProofSignature::Unsigned }];
    assert(s.drop_last() =~= Seq::<ProofSigner>::empty());
    reveal_with_fuel(signed_sum, 2);
}
"""

# common loop hint: the abstraction advances by one element
HINT_SIGNED = ("let sq = $proof.signers@; let i = it.index as int; lemma_signed_sum_step(sq, i); "
               "assert forall|j: int| 0 <= j < i implies sq.take(i + 1)[j] == sq.take(i)[j] by {} "
               "assert(sq.take(i + 1)[i] == sq[i]);")

FUNCTIONS = [
    # ------------------------------------------------------------------ types.rs
    dict(
        name="WeightedSigners::hash", file=TYPES_RS, impl="WeightedSigners", fn="hash",
        params=["self", "env"], modes=BOTH,
        ensures=[dict(id="C01.hash.binds_set", modes=BOTH,
                      clauses=["r@ == keccak(xdr_ws(self.signers@, self.threshold, self.nonce@))"])],
    ),
    dict(
        name="WeightedSigners::signers_rotation_hash", file=TYPES_RS, impl="WeightedSigners", fn="signers_rotation_hash",
        params=["self", "env"], modes=SAFETY,
        ensures=[dict(id="C01.signers_rotation_hash.binds_command", modes=SAFETY,
                      clauses=["r@ == keccak(xdr_cmd_ws(CommandType::RotateSigners, self.signers@, self.threshold, self.nonce@))"])],
    ),
    dict(
        name="Proof::weighted_signers", file=TYPES_RS, impl="Proof", fn="weighted_signers",
        params=["self"], modes=BOTH,
        locals={"OUT": r"let mut (\w+) = Vec::new\("},
        ensures=[dict(id="C01.weighted_signers.exact", modes=BOTH,
                      clauses=["r.signers@ == proof_set(self.signers@)",
                               "r.signers@.len() == self.signers@.len()",
                               "forall|i: int| 0 <= i < self.signers@.len() ==> r.signers@[i] == (#[trigger] self.signers@[i]).signer",
                               "r.threshold == self.threshold",
                               "r.nonce == self.nonce"])],
        loops={0: dict(
            invariants=[dict(text="it.seq() == self.signers@"),
                        dict(text="$OUT@ == proof_set(self.signers@).take(it.index as int)")],
            body_proof="let s = proof_set(self.signers@); let i = it.index as int; assert(s.take(i + 1) =~= s.take(i).push(s[i]));",
            after_proof="let s = proof_set(self.signers@); assert(s.take(s.len() as int) =~= s);",
        )},
    ),
    # ------------------------------------------------------------------ auth.rs
    dict(
        name="epoch", file=AUTH, fn="epoch", params=["env"], modes=BOTH,
        requires={"safety": [], "notrap": ["inst::<DataKey, u64>($env, DataKey::Epoch) is Some"]},
        ensures=[dict(id="C08.epoch.reads_epoch", modes=BOTH,
                      clauses=["inst::<DataKey, u64>($env, DataKey::Epoch) == Some(r)"])],
    ),
    dict(
        name="epoch_by_signers_hash", file=AUTH, fn="epoch_by_signers_hash", params=["env", "signers_hash"], modes=BOTH,
        ensures=[dict(id="C08.epoch_by_signers_hash.reads_registry", modes=BOTH,
                      clauses=["r matches Ok(e) ==> reg_epoch($env, $signers_hash) == Some(e)",
                               "r matches Err(x) ==> reg_epoch($env, $signers_hash) is None && x == ContractError::InvalidSignersHash"])],
    ),
    dict(
        name="message_hash_to_sign", file=AUTH, fn="message_hash_to_sign", params=["env", "signers_hash", "data_hash"], modes=BOTH,
        requires={"safety": [], "notrap": ["inst::<DataKey, BytesN<32>>($env, DataKey::DomainSeparator) is Some"]},
        ensures=[dict(id="C01.message_hash_to_sign.digest", modes=BOTH,
                      clauses=["r.h@ == keccak(inst::<DataKey, BytesN<32>>($env, DataKey::DomainSeparator).unwrap()@ + $signers_hash@ + $data_hash@)"])],
    ),
    dict(
        name="validate_signatures", file=AUTH, fn="validate_signatures", params=["env", "msg_hash", "proof"], modes=BOTH,
        locals={"ACC": r"let mut (\w+)(?:\s*:\s*\w+)? = 0(?:_?[ui]\d+)?;"},
        requires={"safety": [],
                  "notrap": ["weight_sum(proof_set($proof.signers@)) <= u128::MAX",
                             "$proof.threshold > 0",
                             "sigs_ok($proof.signers@, $msg_hash.h@)"]},
        ensures=[
            dict(id="C01.validate_signatures.quorum", modes=SAFETY,
                 clauses=["r ==> quorum($proof.signers@, $proof.threshold, $msg_hash.h@)"]),
            dict(id="C01.validate_signatures.false_means_below", modes=SAFETY,
                 clauses=["!r ==> $proof.threshold == 0 || signed_sum($proof.signers@) < $proof.threshold"]),
            dict(id="C01.validate_signatures.complete", modes=NOTRAP,
                 clauses=["signed_sum($proof.signers@) >= $proof.threshold ==> r"]),
        ],
        vacuity_extra={"notrap": ["signed_sum($proof.signers@) >= $proof.threshold"]},
        loops={0: dict(
            invariants=[
                dict(text="it.seq() == $proof.signers@"),
                dict(text="$ACC as int == signed_sum($proof.signers@.take(it.index as int))"),
                dict(text="sigs_ok($proof.signers@.take(it.index as int), $msg_hash.h@)", modes=SAFETY,
                     **{"for": ["C01.validate_signatures.quorum"]}),
                # no-trap mode: the function's hypotheses restated (Verus loops are verified in isolation)
                dict(text="weight_sum(proof_set($proof.signers@)) <= u128::MAX", modes=NOTRAP),
                dict(text="sigs_ok($proof.signers@, $msg_hash.h@)", modes=NOTRAP),
                dict(text="$proof.threshold > 0", modes=NOTRAP),
                dict(text="$proof.threshold > 0 ==> signed_sum($proof.signers@.take(it.index as int)) < $proof.threshold",
                     **{"for": ["C01.validate_signatures.false_means_below", "C01.validate_signatures.complete"]}),
            ],
            body_proof={"safety": HINT_SIGNED,
                        "notrap": HINT_SIGNED + " lemma_signed_sum_take_le(sq, i + 1); lemma_signed_le_weight(sq);"},
            after_proof="assert($proof.signers@.take($proof.signers@.len() as int) =~= $proof.signers@);",
        )},
    ),
    dict(
        name="validate_signers", file=AUTH, fn="validate_signers", params=["env", "weighted_signers"], modes=SAFETY,
        locals={"ACC": r"let mut (\w+)(?:\s*:\s*\w+)? = 0(?:_?[ui]\d+)?;", "PREV": r"let mut (\w+) = BytesN::<32>::from_array\("},
        ensures=[dict(id="C03.validate_signers.wellformed", modes=SAFETY, clauses=[
            "r is Ok ==> $weighted_signers.signers@.len() > 0",
            "r is Ok ==> lex_lt(zeros32(), $weighted_signers.signers@[0].signer@)",
            "r is Ok ==> keys_increasing($weighted_signers.signers@)",
            "r is Ok ==> weights_nonzero($weighted_signers.signers@)",
            "r is Ok ==> weight_sum($weighted_signers.signers@) <= u128::MAX",
            "r is Ok ==> 0 < $weighted_signers.threshold <= weight_sum($weighted_signers.signers@)",
        ])],
        loops={0: dict(
            invariants=[
                dict(text="it.seq() == $weighted_signers.signers@"),
                dict(text="$ACC as int == weight_sum($weighted_signers.signers@.take(it.index as int))"),
                dict(text="it.index == 0 ==> $PREV@ == zeros32()"),
                dict(text="it.index > 0 ==> $PREV@ == $weighted_signers.signers@[it.index as int - 1].signer@"),
                dict(text="it.index > 0 ==> lex_lt(zeros32(), $weighted_signers.signers@[0].signer@)"),
                dict(text="keys_increasing($weighted_signers.signers@.take(it.index as int))"),
                dict(text="weights_nonzero($weighted_signers.signers@.take(it.index as int))"),
            ],
            body_proof=("let sq = $weighted_signers.signers@; let i = it.index as int; lemma_weight_sum_step(sq, i); "
                        "assert forall|j: int| 0 <= j < i implies sq.take(i + 1)[j] == sq.take(i)[j] by {} "
                        "assert(sq.take(i + 1)[i] == sq[i]);"),
            after_proof="assert($weighted_signers.signers@.take($weighted_signers.signers@.len() as int) =~= $weighted_signers.signers@);",
        )},
    ),
    dict(
        name="validate_proof", file=AUTH, fn="validate_proof", params=["env", "data_hash", "proof"], modes=BOTH,
        requires={
            "safety": ["gw_epochs_in_range($env)"],
            "notrap": ["gw_epochs_in_range($env)",
                       "gw_keys_present($env)",
                       "weight_sum(proof_set($proof.signers@)) <= u128::MAX",
                       "$proof.threshold > 0",
                       "sigs_ok($proof.signers@, digest($env, proof_hash($proof), $data_hash@))"],
        },
        ensures=[
            dict(id="C01.validate_proof.sound", modes=SAFETY, clauses=[
                "r is Ok ==> exists|hb: BytesN<32>| hb@ == proof_hash($proof) && (#[trigger] reg_epoch($env, hb)) is Some",
                "r is Ok ==> quorum($proof.signers@, $proof.threshold, digest($env, proof_hash($proof), $data_hash@))",
            ]),
            dict(id="C08.validate_proof.retention", modes=SAFETY, clauses=[
                "r is Ok ==> forall|hb: BytesN<32>| hb@ == proof_hash($proof) ==> "
                "((#[trigger] reg_epoch($env, hb)) matches Some(e) && cur_epoch($env) - e <= retention($env))",
            ]),
            dict(id="C08.validate_proof.latest_flag", modes=SAFETY, clauses=[
                "r matches Ok(b) ==> forall|hb: BytesN<32>| hb@ == proof_hash($proof) ==> "
                "((#[trigger] reg_epoch($env, hb)) matches Some(e) && b == (e == cur_epoch($env)))",
            ]),
            dict(id="C08.validate_proof.complete", modes=NOTRAP, clauses=[
                "forall|hb: BytesN<32>| hb@ == proof_hash($proof) ==> ((#[trigger] reg_epoch($env, hb)) matches Some(e) ==> "
                "(cur_epoch($env) - e <= retention($env) "
                "==> !(r matches Err(ContractError::OutdatedSigners)) && !(r matches Err(ContractError::InvalidSignersHash))))",
            ]),
            dict(id="C01.validate_proof.complete", modes=NOTRAP, clauses=[
                "forall|hb: BytesN<32>| hb@ == proof_hash($proof) ==> ((#[trigger] reg_epoch($env, hb)) matches Some(e) ==> "
                "(cur_epoch($env) - e <= retention($env) && signed_sum($proof.signers@) >= $proof.threshold "
                "==> r == Ok::<bool, ContractError>(e == cur_epoch($env))))",
            ]),
        ],
        vacuity_extra={"notrap": [
            "exists|hb: BytesN<32>, e: u64| hb@ == proof_hash($proof) && reg_epoch($env, hb) == Some(e) "
            "&& cur_epoch($env) - e <= retention($env) && signed_sum($proof.signers@) >= $proof.threshold"]},
    ),
]

for _f in FUNCTIONS:
    _f.setdefault("requires", [])
    _f.setdefault("loops", {})
    _f.setdefault("locals", {})


def obligations(mode=None):
    out = []
    for f in FUNCTIONS:
        for e in f["ensures"]:
            for m in e["modes"]:
                if mode in (None, m) and m in f["modes"]:
                    out.append(dict(id=e["id"], function=f["name"], mode=m))
    return out
