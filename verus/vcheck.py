#!/usr/bin/env python3
"""Driver of the Verus back end.

  python3 /verif/verus/vcheck.py [--repo /repo] [--out FILE.json] [--workdir DIR] [--rlimit N]

 (a) extract.py generates <workdir>/gateway_safety.rs, gateway_notrap.rs, gateway_vacuity.rs from
     the real files under --repo;
 (b) `verus <file> --output-json --time --error-format=json ...` on each (concurrently);
 (c) every Verus error is attributed to named obligations through the marker comments of the
     generated file (see extract.py); obligations that only held because a failed one was
     assumed are found by re-verification without the failed clauses (dependency closure);
 (d) JSON report; exit 0 all discharged / 1 a proof obligation failed / 2 undecided.

A compile error, an unsupported construct, an rlimit/timeout, a lost anchor, a vacuous
precondition or a changed item count is NEVER exit 1.
"""
import argparse
import json
import os
import re
import subprocess
import sys
import threading
import time

HERE = os.path.dirname(os.path.abspath(__file__))
sys.path.insert(0, HERE)
import contracts  # noqa: E402
import extract  # noqa: E402

UNIT_FILE = {"safety": "gateway_safety.rs", "notrap": "gateway_notrap.rs", "vacuity": "gateway_vacuity.rs"}

# Verus messages that denote a genuine failed proof obligation (everything else that is an
# error is a tool limit / compile problem => undecided)
FAILED_PROOF = [
    r"^postcondition not satisfied",
    r"^precondition not satisfied",
    r"^invariant not satisfied",
    r"^assertion failed",
    r"^possible arithmetic underflow/overflow",
    r"^possible division by zero",
    r"^possible bit shift underflow/overflow",
    r"^requires not satisfied",
    r"^decreases not satisfied",
    r"^could not prove termination",
    r"^unreachable_proof\(\) reached|^unreached\(\) reached",
]
RESOURCE = [r"[Rr]esource limit", r"rlimit", r"timed? ?out", r"Z3 .*(crash|error)", r"solver"]
IGNORE = [r"^aborting due to", r"^could not compile"]


def is_failed_proof(msg):
    return any(re.search(p, msg) for p in FAILED_PROOF)


# ----------------------------------------------------------------------------------------------
# marker map of a generated file
# ----------------------------------------------------------------------------------------------
def marker_map(text):
    """line number (1-based) -> dict(region, fn, kind, obls)"""
    m, region, fn, probe = {}, None, None, None
    for n, ln in enumerate(text.split("\n"), 1):
        s = ln.strip()
        g = re.match(r"//@region (\w+)", s)
        if g:
            region = g.group(1)
        g = re.match(r"//@fn-begin (\S+) (\w+) (\S+) (\d+) (\d+)", s)
        if g:
            fn = g.group(1)
        if s.startswith("//@fn-end"):
            m[n] = dict(region=region, fn=fn, kind="end", obls=[])
            fn = None
            continue
        g = re.match(r"//@probe (\S+) (\w+) (\w+)", s)
        if g:
            probe = "%s/%s/%s" % g.groups()
        if s.startswith("//@probe-end"):
            probe = None
        e = dict(region=region, fn=fn, kind="body" if fn else "other", obls=[], probe=probe)
        g = re.search(r"//@ens (\S+) (\S+)", ln)
        if g:
            e.update(kind="ens", obls=[g.group(2)])
        g = re.search(r"//@inv (\S+) (\d+) (\S*)", ln)
        if g:
            e.update(kind="inv", obls=[o for o in g.group(3).split(",") if o])
        if re.search(r"//@req ", ln):
            e.update(kind="req")
        if re.search(r"//@probe-ens ", ln):
            e.update(kind="probe-ens")
        m[n] = e
    return m


# ----------------------------------------------------------------------------------------------
# running verus
# ----------------------------------------------------------------------------------------------
def run_verus(path, rlimit, timeout):
    cmd = ["verus", os.path.basename(path), "--output-json", "--time", "--error-format=json",
           "--triggers-mode", "silent", "--multiple-errors", "20", "--rlimit", str(rlimit)]
    t0 = time.time()
    try:
        p = subprocess.run(cmd, cwd=os.path.dirname(path), capture_output=True, text=True, timeout=timeout)
        out, err, rc, to = p.stdout, p.stderr, p.returncode, False
    except subprocess.TimeoutExpired as e:
        out, err, rc, to = (e.stdout or ""), (e.stderr or ""), -1, True
        if isinstance(out, bytes):
            out = out.decode(errors="replace")
        if isinstance(err, bytes):
            err = err.decode(errors="replace")
    except OSError as e:
        out, err, rc, to = "", "cannot run verus: %s" % e, -2, False
    diags, raw = [], []
    for ln in err.split("\n"):
        ln = ln.strip()
        if not ln:
            continue
        try:
            d = json.loads(ln)
            if isinstance(d, dict) and "message" in d:
                diags.append(d)
                continue
        except ValueError:
            pass
        raw.append(ln)
    res = None
    try:
        i = out.index("{")
        res = json.loads(out[i:])
    except ValueError:
        pass
    return dict(cmd=" ".join(cmd), rc=rc, timeout=to, diags=diags, raw_stderr=raw, result=res,
                stdout=out, wall_s=round(time.time() - t0, 2))


def analyse(unit, text, run):
    """Classify the diagnostics of one run.
    Returns dict(undecided=[reasons], failed={obl: [detail]}, whole={fn: [detail]}, probes_failed=set, verified, errors, smt_ms)."""
    mm = marker_map(text)
    fname = UNIT_FILE.get(unit, unit)
    und, failed, whole, probes = [], {}, {}, set()
    if run["timeout"]:
        und.append("verus timed out")
    if run["rc"] == -2:
        und.append("; ".join(run["raw_stderr"])[:300])
    for d in run["diags"]:
        if d.get("level") != "error":
            continue
        msg = d.get("message", "")
        if any(re.search(p, msg) for p in IGNORE):
            continue
        rendered = (d.get("rendered") or msg).strip()
        short = rendered if len(rendered) < 1500 else rendered[:1500] + " ..."
        if not is_failed_proof(msg):
            kind = "resource limit" if any(re.search(p, msg) for p in RESOURCE) else "compile / unsupported"
            und.append("%s: %s" % (kind, rendered.split("\n\n")[0][:600]))
            continue
        spans = [s for s in d.get("spans", []) if os.path.basename(s.get("file_name", "")) == os.path.basename(run["cmd"].split()[1])]
        prim = [s for s in spans if s.get("is_primary")] or spans
        if not prim:
            und.append("verification error outside the generated file: " + short[:400])
            continue
        lines = set()
        for s in prim:
            lines.update(range(s["line_start"], s["line_end"] + 1))
        ents = [mm[n] for n in sorted(lines) if n in mm]
        fns = {e["fn"] for e in ents if e["fn"]}
        if any(e.get("probe") for e in ents):
            for e in ents:
                if e.get("probe") and msg.startswith("postcondition not satisfied"):
                    probes.add(e["probe"])
            continue
        if not fns:
            regs = {e["region"] for e in ents}
            und.append("proof failure in the framework's own text (%s), not in extracted code: %s" % (",".join(sorted(map(str, regs))), short[:600]))
            continue
        fn = sorted(fns)[0]
        specific = []
        if msg.startswith("postcondition not satisfied"):
            specific = [o for e in ents if e["kind"] == "ens" for o in e["obls"]]
        elif msg.startswith("invariant not satisfied"):
            specific = [o for e in ents if e["kind"] == "inv" for o in e["obls"]]
        if specific:
            for o in specific:
                failed.setdefault(o, []).append(short)
        else:
            whole.setdefault(fn, []).append(short)
    res = run["result"] or {}
    vr = res.get("verification-results") or {}
    if run["result"] is None and not und:
        und.append("no JSON result from verus (rc=%s): %s" % (run["rc"], " ".join(run["raw_stderr"])[:300]))
    if vr.get("encountered-vir-error"):
        und.append("verus reported a VIR error (unsupported construct)")
    smt = ((res.get("times-ms") or {}).get("smt") or {}).get("total")
    checked = set()
    try:
        for mt in res["times-ms"]["smt"]["smt-run-module-times"]:
            for fb in mt.get("function-breakdown", []):
                checked.add(fb["function"].split("::", 1)[-1])
    except (KeyError, TypeError):
        pass
    return dict(undecided=und, failed=failed, whole=whole, probes_failed=probes, verified=vr.get("verified"),
                errors=vr.get("errors"), smt_ms=smt, checked=checked,
                verus_version=(res.get("verus") or {}).get("version"))


# ----------------------------------------------------------------------------------------------
# trusted-base scan
# ----------------------------------------------------------------------------------------------
TRUST_PAT = [("external_body", r"external_body"), ("uninterp", r"\buninterp\b"), ("axiom", r"\baxiom\b"),
             ("assume", r"\bassume\s*\("), ("admit", r"\badmit\s*\("), ("assume_specification", r"\bassume_specification\b")]


def trusted_scan(units):
    """units: {unit: text}.  Mechanical scan; returns sorted list of strings."""
    found = {}
    for unit, text in units.items():
        masked = extract.mask(text)
        impls = []
        for m in re.finditer(r"\bimpl\b[^{;]*\{", masked):
            try:
                impls.append((m.start(), extract.match_close(masked, m.end() - 1), re.sub(r"\s+", " ", masked[m.start():m.end() - 1]).strip()))
            except extract.LostAnchor:
                pass
        for kind, pat in TRUST_PAT:
            for m in re.finditer(pat, masked):
                # the item this marker belongs to: next `fn NAME` (or the statement itself for assume/admit)
                if kind in ("assume", "admit"):
                    ls = text.rfind("\n", 0, m.start()) + 1
                    le = text.find("\n", m.start())
                    desc = "%s at: %s" % (kind, text[ls:le].strip())
                else:
                    f = re.compile(r"\bfn\s+(\w+)").search(masked, m.start())
                    if not f:
                        desc = "%s (no item found)" % kind
                    else:
                        enc = [i for i in impls if i[0] < f.start() < i[1]]
                        owner = ""
                        if enc:
                            h = min(enc, key=lambda i: i[1] - i[0])[2]
                            g = re.match(r"impl(?:<[^>]*>)?\s+(.*?)\s*$", h)
                            owner = (g.group(1) if g else h) + " :: "
                        # signature up to the body / terminating ';'
                        end = f.end()
                        depth = 0
                        while end < len(masked):
                            ch = masked[end]
                            if ch in "([":
                                depth += 1
                            elif ch in ")]":
                                depth -= 1
                            elif depth == 0 and ch in "{;":
                                # skip `ensures ({ ...` style blocks: only stop at a body brace following ')' or an identifier char
                                break
                            end += 1
                        sig = re.sub(r"\s+", " ", text[f.start():end]).strip()
                        sig = re.sub(r"\s*//@\S+.*$", "", sig)
                        desc = "%s %s%s" % (kind, owner, sig)
                found.setdefault(desc, set()).add(unit)
    return ["%s  [%s]" % (d, ",".join(sorted(u))) for d, u in sorted(found.items())]


# ----------------------------------------------------------------------------------------------
def main():
    ap = argparse.ArgumentParser()
    ap.add_argument("--repo", default="/repo")
    ap.add_argument("--out", default=None)
    ap.add_argument("--workdir", default="/verif/.work/verus")
    ap.add_argument("--rlimit", default="30")
    ap.add_argument("--timeout", type=int, default=300)
    ap.add_argument("--quiet", action="store_true")
    a = ap.parse_args()
    t0 = time.time()
    os.makedirs(a.workdir, exist_ok=True)
    report = dict(status="undecided", reason="", time_s=0, verus_version=None, repo=a.repo, units=[], functions=[],
                  obligations=[], rewrites=extract.REWRITES, trusted=[], vacuity={}, verus_stdout_tail="")
    obl_index = {}  # (id, mode) -> record
    for o in contracts.obligations():
        rec = dict(id=o["id"], function=o["function"], mode=o["mode"], status="undecided", detail="")
        obl_index[(o["id"], o["mode"])] = rec
        report["obligations"].append(rec)

    def finish(status, reason, code):
        report["status"], report["reason"] = status, reason
        report["time_s"] = round(time.time() - t0, 2)
        txt = json.dumps(report, indent=1)
        if a.out:
            with open(a.out, "w") as fh:
                fh.write(txt + "\n")
        with open(os.path.join(a.workdir, "vcheck_last.json"), "w") as fh:
            fh.write(txt + "\n")
        if not a.quiet:
            print("vcheck: %s (%s) in %.1fs" % (status, reason, report["time_s"]))
            for o in report["obligations"]:
                print("  %-11s %-8s %s%s" % (o["status"], o["mode"], o["id"], ("  <- " + o["detail"].split("\n")[0][:110]) if o["status"] != "discharged" and o["detail"] else ""))
        return code

    # ---- (a) extraction
    texts, infos = {}, {}
    try:
        for unit in ("safety", "notrap", "vacuity"):
            texts[unit], infos[unit] = extract.generate(a.repo, unit)
            with open(os.path.join(a.workdir, UNIT_FILE[unit]), "w") as fh:
                fh.write(texts[unit])
    except extract.LostAnchor as e:
        return finish("undecided", "extraction failed (lost anchor / unsupported shape): %s" % e, 2)
    fns = {}
    for unit in ("safety", "notrap"):
        for i in infos[unit]:
            f = fns.setdefault(i["name"], dict(name=i["name"], src=i["src"], lines=i["lines"], modes=[]))
            f["modes"].append(unit)
    report["functions"] = list(fns.values())
    report["trusted"] = trusted_scan({u: texts[u] for u in ("safety", "notrap")})

    # ---- (b) verus, three units concurrently
    runs = {}

    def work(unit):
        runs[unit] = run_verus(os.path.join(a.workdir, UNIT_FILE[unit]), a.rlimit, a.timeout)
    ths = [threading.Thread(target=work, args=(u,)) for u in texts]
    for t in ths:
        t.start()
    for t in ths:
        t.join()
    ana = {u: analyse(u, texts[u], runs[u]) for u in texts}
    report["verus_version"] = next((ana[u]["verus_version"] for u in ana if ana[u]["verus_version"]), None)
    tail = []
    for u in ("safety", "notrap", "vacuity"):
        r = runs[u]
        rendered = "".join((d.get("rendered") or "") for d in r["diags"] if d.get("level") == "error")
        if u == "vacuity" and not ana[u]["undecided"]:
            rendered = "(%d `ensures false` probes refuted, as they must be)\n" % len(ana[u]["probes_failed"])
        vr = (r["result"] or {}).get("verification-results")
        tail.append("== %s: %s\n%s%s\nverification-results: %s" % (UNIT_FILE[u], r["cmd"], rendered[-3500:], "\n".join(r["raw_stderr"])[-500:], json.dumps(vr)))
        report["units"].append(dict(file=UNIT_FILE[u], mode=u, verified=ana[u]["verified"], errors=ana[u]["errors"],
                                    smt_ms=ana[u]["smt_ms"], wall_s=r["wall_s"]))
    report["verus_stdout_tail"] = "\n".join(tail)[-12000:]

    undecided = []
    # ---- vacuity unit: every probe must FAIL, nothing else may
    nprobes = len(re.findall(r"^//@probe ", texts["vacuity"], re.M))
    pv = ana["vacuity"]
    report["vacuity"] = dict(probes=nprobes, probes_refuted=len(pv["probes_failed"]),
                             note="each probe is `requires <contract hypotheses> ensures false` and must not verify")
    if pv["undecided"]:
        undecided += ["vacuity unit: " + x for x in pv["undecided"]]
    elif (pv["verified"] or 0) + (pv["errors"] or 0) != contracts.EXPECTED_ITEMS["vacuity"]:
        undecided.append("vacuity unit: %s items checked, %d expected" % ((pv["verified"] or 0) + (pv["errors"] or 0), contracts.EXPECTED_ITEMS["vacuity"]))
    elif len(pv["probes_failed"]) != nprobes or pv["failed"] or pv["whole"]:
        undecided.append("vacuity guard: %d of %d `ensures false` probes were refuted (a contract hypothesis may be contradictory)" % (len(pv["probes_failed"]), nprobes))

    # ---- main units
    any_failed = False
    for unit in ("safety", "notrap"):
        an = ana[unit]
        mine = [r for (i, m), r in obl_index.items() if m == unit]
        if an["undecided"]:
            undecided += ["%s: %s" % (UNIT_FILE[unit], x) for x in an["undecided"]]
            for r in mine:
                r["detail"] = an["undecided"][0][:300]
            continue
        total = (an["verified"] or 0) + (an["errors"] or 0)
        if not an["verified"]:
            undecided.append("%s: zero verified items" % UNIT_FILE[unit])
            continue
        exp = contracts.EXPECTED_ITEMS.get(unit)
        if exp is not None and total != exp:
            undecided.append("%s: %d items checked, %d expected (contracts.EXPECTED_ITEMS)" % (UNIT_FILE[unit], total, exp))
            continue
        missing = [i["name"] for i in infos[unit] if i["name"] not in an["checked"]]
        if missing:
            undecided.append("%s: extracted functions not reported as checked by verus: %s" % (UNIT_FILE[unit], missing))
            continue
        # direct attribution
        failed = {}  # obligation id -> detail
        by_fn = {}
        for r in mine:
            by_fn.setdefault(r["function"], []).append(r["id"])
        for o, det in an["failed"].items():
            failed.setdefault(o, det[0])
        for fn, det in an["whole"].items():
            for o in by_fn.get(fn, []):
                failed.setdefault(o, "unattributed failure inside %s: %s" % (fn, det[0]))
        # dependency closure by re-verification without the failed clauses
        closure_note = ""
        if failed:
            any_failed = True
            for k in range(1, 6):
                drop = frozenset(failed)
                stub = frozenset(fn for fn, ids in by_fn.items() if all(i in drop for i in ids))
                try:
                    t2, _ = extract.generate(a.repo, unit, drop, stub)
                except extract.LostAnchor as e:
                    closure_note = "closure aborted: %s" % e
                    break
                p2 = os.path.join(a.workdir, "closure_%s_%d.rs" % (unit, k))
                with open(p2, "w") as fh:
                    fh.write(t2)
                r2 = run_verus(p2, a.rlimit, a.timeout)
                a2 = analyse(os.path.basename(p2), t2, r2)
                if a2["undecided"]:
                    closure_note = "dependency closure incomplete (re-run %d undecided: %s)" % (k, a2["undecided"][0][:200])
                    break
                new = {}
                why = "holds only if failed obligation(s) %s are assumed; without them: " % ", ".join(sorted(drop))
                for o, det in a2["failed"].items():
                    if o not in failed:
                        new[o] = why + det[0]
                for fn, det in a2["whole"].items():
                    for o in by_fn.get(fn, []):
                        if o not in failed:
                            new.setdefault(o, why + "unattributed failure inside %s: %s" % (fn, det[0]))
                if not new:
                    break
                failed.update(new)
        for r in mine:
            if r["id"] in failed:
                r["status"], r["detail"] = "failed", failed[r["id"]]
            elif closure_note:
                r["status"], r["detail"] = "undecided", "may depend on a failed obligation; " + closure_note
            else:
                r["status"], r["detail"] = "discharged", ""
        if closure_note:
            report.setdefault("notes", []).append("%s: %s" % (unit, closure_note))

    if undecided:
        for r in report["obligations"]:
            if r["status"] == "discharged" and any(x.startswith("vacuity") for x in undecided):
                r["status"] = "undecided"
                r["detail"] = "vacuity guard failed"
        return finish("undecided", " | ".join(undecided)[:2000], 2)
    if any_failed:
        bad = [r["id"] + "(" + r["mode"] + ")" for r in report["obligations"] if r["status"] == "failed"]
        return finish("failed", "failed obligations: " + ", ".join(bad), 1)
    n = len(report["obligations"])
    return finish("ok", "%d obligations discharged; %d vacuity probes refuted" % (n, nprobes), 0)


if __name__ == "__main__":
    sys.exit(main())
