#!/usr/bin/env python3
"""Self-test of the Verus back end: seeded property-breaking edits must be caught (exit 1, the
intended obligation named), harmless edits must still pass (exit 0), and broken anchors /
compile errors must be `undecided` (exit 2), never an alarm.

  python3 /verif/verus/selftest.py [--repo /repo] [--keep] [--only m4,h1] [--json FILE]

Works on a scratch copy under /root/scratch-verus (deleted afterwards); never touches /repo.
"""
import argparse
import json
import os
import re
import shutil
import subprocess
import sys
import time

HERE = os.path.dirname(os.path.abspath(__file__))
SCRATCH = "/root/scratch-verus"
AUTH = "contracts/axelar-gateway/src/auth.rs"
TYPES = "contracts/axelar-gateway/src/types.rs"
COPY = ["contracts/axelar-gateway/src", "packages/axelar-soroban-std/src"]


def sub1(pattern, repl, flags=re.S):
    def f(text):
        new, n = re.subn(pattern, repl, text, flags=flags)
        if n != 1:
            raise RuntimeError("mutation pattern %r matched %d times" % (pattern, n))
        return new
    return f


def rename(old, new):
    def f(text):
        out, n = re.subn(r"\b%s\b" % old, new, text)
        if n == 0:
            raise RuntimeError("nothing to rename")
        return out
    return f


def swap_checks(text):
    a = re.search(r"[ \t]*ensure!\(\s*previous_signer < signer\.signer,\s*ContractError::InvalidSigners\s*\);\n", text)
    b = re.search(r"[ \t]*ensure!\(signer\.weight != 0, ContractError::InvalidWeight\);\n", text)
    if not a or not b or not a.end() <= b.start():
        raise RuntimeError("swap anchors not found")
    return text[:a.start()] + b.group(0) + text[a.end():b.start()] + a.group(0) + text[b.end():]


def reformat(text):
    t = sub1(r"(pub fn validate_proof\([^{]*\{\n)", r"\1    // a comment with braces { } and a \"string\" and an .unwrap() in it\n\n\n")(text)
    t = sub1(r"    let current_epoch = epoch\(env\);\n", "    let current_epoch =\n        epoch( env ) ;   /* block comment: for x in y { } */\n")(t)
    return t


Q, FMB, VSC = "C01.validate_signatures.quorum", "C01.validate_signatures.false_means_below", "C01.validate_signatures.complete"
SOUND, RET, LATEST = "C01.validate_proof.sound", "C08.validate_proof.retention", "C08.validate_proof.latest_flag"
C01C, C08C = "C01.validate_proof.complete", "C08.validate_proof.complete"
DIGEST, C03 = "C01.message_hash_to_sign.digest", "C03.validate_signers.wellformed"

# id, description, file, edit, expected exit, obligations that must fail, obligations that must stay discharged
CASES = [
    ("m1", "remove the ed25519_verify call", AUTH,
     sub1(r"env\.crypto\(\)\s*\.ed25519_verify\([^;]*;", ""), 1, [Q, SOUND], [FMB, C03, RET, LATEST, DIGEST]),
    ("m2", "remove the retention ensure!", AUTH,
     sub1(r"ensure!\(\s*current_epoch - signers_epoch <= previous_signers_retention,\s*ContractError::OutdatedSigners\s*\);", ""),
     1, [RET], [SOUND, LATEST, Q, C03]),
    ("m3", "drop signers_hash from the signed digest", AUTH,
     sub1(r"msg\.extend_from_array\(&signers_hash\.to_array\(\)\);", ""), 1, [DIGEST, SOUND], [Q, RET, LATEST, C03]),
    ("m4", "validate_signatures: `>=` threshold -> `>`", AUTH,
     sub1(r"total_weight >= proof\.threshold", "total_weight > proof.threshold"), 1, [C01C, VSC], [Q, SOUND, RET, LATEST, C08C, C03]),
    ("m5", "validate_signers: `<` -> `<=` (duplicate keys accepted)", AUTH,
     sub1(r"previous_signer < signer\.signer", "previous_signer <= signer.signer"), 1, [C03], [Q, SOUND, RET, LATEST, C01C, C08C]),
    ("m6", "validate_signers: remove the non-zero weight check", AUTH,
     sub1(r"ensure!\(signer\.weight != 0, ContractError::InvalidWeight\);", ""), 1, [C03], [Q, SOUND, RET, LATEST, C01C, C08C]),
    ("m7", "validate_signers: drop `threshold != 0 &&`", AUTH,
     sub1(r"threshold != 0 && total_weight >= threshold", "total_weight >= threshold"), 1, [C03], [Q, SOUND, RET, LATEST, C01C, C08C]),
    ("m8", "retention window `<=` -> `<`", AUTH,
     sub1(r"current_epoch - signers_epoch <= previous_signers_retention", "current_epoch - signers_epoch < previous_signers_retention"),
     1, [C08C, C01C], [SOUND, RET, LATEST, Q, VSC, C03]),
    ("m9", "is_latest_signers := true", AUTH,
     sub1(r"let is_latest_signers: bool = signers_epoch == current_epoch;", "let is_latest_signers: bool = true;"),
     1, [LATEST, C01C], [SOUND, RET, Q, C08C, C03]),
    ("m10", "weighted_signers: copy threshold from nowhere (threshold: 0)", TYPES,
     sub1(r"threshold: self\.threshold,", "threshold: 0,"), 1, ["C01.weighted_signers.exact"], [Q, C03]),
    ("m11", "validate_signers: skip the overflow check (wrapping_add)", AUTH,
     sub1(r"total_weight = total_weight\s*\.checked_add\(signer\.weight\)\s*\.ok_or\(ContractError::WeightOverflow\)\?;",
          "total_weight = total_weight.wrapping_add(signer.weight);"), 1, [C03], [Q, SOUND]),
    ("h1", "harmless: rename local total_weight -> tw (whole file)", AUTH, rename("total_weight", "tw"), 0, [], []),
    ("h2", "harmless: swap the two independent ensure! checks in validate_signers' loop", AUTH, swap_checks, 0, [], []),
    ("h3", "harmless: comments / blank lines / reformatting in validate_proof", AUTH, reformat, 0, [], []),
    ("h4", "harmless: rename parameter proof -> p in validate_signatures", AUTH,
     lambda t: re.sub(r"(fn validate_signatures\(.*?\n\}\n)", lambda m: re.sub(r"\bproof\b", "p", m.group(1)), t, count=1, flags=re.S), 0, [], []),
    ("t1", "triage: anchor lost (validate_signers renamed) -> undecided", AUTH, rename("validate_signers", "check_signers"), 2, [], []),
    ("t2", "triage: type error in validate_proof -> undecided, not an alarm", AUTH,
     sub1(r"let current_epoch = epoch\(env\);", "let current_epoch: u32 = epoch(env);"), 2, [], []),
    ("t4", "triage: construct Verus does not support (iterator adapter + closure) -> undecided", AUTH,
     sub1(r"(let signers_set = proof\.weighted_signers\(\);)", r"\1\n    let _n: usize = [1u64, 2u64].iter().map(|x| *x + 1).count();"), 2, [], []),
    ("t3", "triage: a `while` loop appears in validate_signatures -> undecided", AUTH,
     sub1(r"(fn validate_signatures\([^{]*\{\n)", r"\1    let mut z = 0u32; while z < 3 { z += 1; }\n"), 2, [], []),
]


def main():
    ap = argparse.ArgumentParser()
    ap.add_argument("--repo", default="/repo")
    ap.add_argument("--only", default="")
    ap.add_argument("--keep", action="store_true")
    ap.add_argument("--json", default=None)
    a = ap.parse_args()
    only = set(x for x in a.only.split(",") if x)
    root = os.path.join(SCRATCH, "selftest-%d" % os.getpid())
    rows, ok_all = [], True
    try:
        for cid, desc, rel, edit, want_exit, must_fail, must_hold in CASES:
            if only and cid not in only:
                continue
            t0 = time.time()
            tree = os.path.join(root, cid, "repo")
            work = os.path.join(root, cid, "work")
            for d in COPY:
                shutil.copytree(os.path.join(a.repo, d), os.path.join(tree, d))
            p = os.path.join(tree, rel)
            with open(p) as fh:
                src = fh.read()
            new = edit(src)
            assert new != src, "edit %s changed nothing" % cid
            with open(p, "w") as fh:
                fh.write(new)
            out = os.path.join(root, cid, "out.json")
            r = subprocess.run([sys.executable, os.path.join(HERE, "vcheck.py"), "--repo", tree, "--workdir", work, "--out", out, "--quiet"],
                               capture_output=True, text=True)
            rep = json.load(open(out))
            failed = sorted({o["id"] for o in rep["obligations"] if o["status"] == "failed"})
            problems = []
            if r.returncode != want_exit:
                problems.append("exit %d, wanted %d" % (r.returncode, want_exit))
            for o in must_fail:
                if o not in failed:
                    problems.append("%s not reported failed" % o)
            for o in must_hold:
                if o in failed:
                    problems.append("%s reported failed but should hold" % o)
            verdict = "PASS" if not problems else "FAIL: " + "; ".join(problems)
            ok_all &= not problems
            rows.append(dict(id=cid, desc=desc, exit=r.returncode, want_exit=want_exit, failed=failed, verdict=verdict,
                             reason=rep["reason"][:160] if r.returncode == 2 else "", time_s=round(time.time() - t0, 1)))
            print("%-4s exit=%d (want %d) %-5s %5.1fs  %s\n       failed: %s%s" % (
                cid, r.returncode, want_exit, "PASS" if not problems else "FAIL", time.time() - t0, desc,
                ", ".join(failed) or "-", ("\n       " + verdict) if problems else ("\n       undecided: " + rep["reason"][:150] if r.returncode == 2 else "")))
            if not a.keep:
                shutil.rmtree(os.path.join(root, cid), ignore_errors=True)
    finally:
        if not a.keep:
            shutil.rmtree(root, ignore_errors=True)
    if a.json:
        with open(a.json, "w") as fh:
            json.dump(rows, fh, indent=1)
    print("selftest: %s (%d cases)" % ("ALL PASS" if ok_all else "SOME FAILED", len(rows)))
    return 0 if ok_all else 1


if __name__ == "__main__":
    sys.exit(main())
