// History lemmas over the proved per-step contracts (C02, C05, C14).
//
// The per-step contracts are proved on the real code by the Kani harnesses (obligation ids in the
// comments).  Each property also has an "at all times / for every history" clause; that clause is an
// induction over the steps.  Here the induction is machine-checked: a step relation that is the
// conjunction of the cited obligations (TRANSCRIBED BY HAND from the harness postconditions — that
// transcription is the trusted part and is listed as such in the evidence), and a lemma that every
// finite history of such steps satisfies the property's invariant.
//
// run:  verus lemmas.rs --output-json --time
use vstd::prelude::*;

verus! {

// =================================================================================================
// C02 — per (source chain, message id) the status only moves forward
// =================================================================================================
pub enum Status { NotApproved, Approved(int), Executed }

pub open spec fn rank(s: Status) -> int {
    match s { Status::NotApproved => 0, Status::Approved(_) => 1, Status::Executed => 2 }
}

pub enum Step02 {
    /// approve_messages touches this id with a message whose approval hash is `h`
    Approve { h: int },
    /// validate_message for this id by a caller for whom the exact approval hash would be `h`
    Validate { h: int },
    /// any other entry point of the gateway
    Other,
}

/// Step relation = the proved contracts:
///  Approve:  C02.approve_step_state (unknown id -> Approved(h); a known id keeps its record), C02.approve_frame
///  Validate: C02.consume_iff_exact_approval, C02.consumed_marks_executed, C02.refused_consume_no_effect
///  Other:    C02.writers (no other function writes MessageApproval) + every other harness' frame
pub open spec fn step02(pre: Status, st: Step02, post: Status, consumed: bool) -> bool {
    match st {
        Step02::Approve { h } => !consumed && (if pre is NotApproved { post == Status::Approved(h) } else { post == pre }),
        Step02::Validate { h } => (consumed <==> pre == Status::Approved(h)) && (if consumed { post == Status::Executed } else { post == pre }),
        Step02::Other => !consumed && post == pre,
    }
}

/// a history: states s[0..=n], steps and consume flags of length n
pub open spec fn history02(s: Seq<Status>, steps: Seq<Step02>, consumed: Seq<bool>) -> bool {
    s.len() == steps.len() + 1 && consumed.len() == steps.len()
    && forall|i: int| 0 <= i < steps.len() ==> step02(s[i], #[trigger] steps[i], s[i + 1], consumed[i])
}

pub open spec fn count_true(b: Seq<bool>) -> int decreases b.len() {
    if b.len() == 0 { 0 } else { count_true(b.drop_last()) + if b.last() { 1int } else { 0int } }
}

/// C02.history_monotone: the status never moves backwards, the recorded content of an approved id
/// never changes while approved, and the message is consumed at most once over the whole history.
pub proof fn c02_history_monotone(s: Seq<Status>, steps: Seq<Step02>, consumed: Seq<bool>)
    requires history02(s, steps, consumed), s[0] is NotApproved,
    ensures
        forall|i: int, j: int| 0 <= i <= j < s.len() ==> rank(s[i]) <= rank(s[j]),
        forall|i: int, j: int| 0 <= i <= j < s.len() && s[i] is Approved && s[j] is Approved ==> s[i] == s[j],
        count_true(consumed) <= 1,
        count_true(consumed) == 1 ==> s.last() is Executed,
    decreases steps.len(),
{
    if steps.len() == 0 {
        assert(consumed =~= Seq::<bool>::empty());
    } else {
        let n = steps.len() as int;
        let s1 = s.drop_last(); let st1 = steps.drop_last(); let c1 = consumed.drop_last();
        assert(history02(s1, st1, c1)) by {
            assert forall|i: int| 0 <= i < st1.len() implies step02(s1[i], #[trigger] st1[i], s1[i + 1], c1[i]) by {
                assert(step02(s[i], steps[i], s[i + 1], consumed[i]));
            }
        }
        c02_history_monotone(s1, st1, c1);
        assert(step02(s[n - 1], steps[n - 1], s[n], consumed[n - 1]));
        assert(s1.last() == s[n - 1]);
        // the last step keeps the rank order and the approved content
        assert forall|i: int, j: int| 0 <= i <= j < s.len() implies rank(s[i]) <= rank(s[j]) by {
            if j == n { if i < n { assert(rank(s1[i]) <= rank(s1[n - 1])); } }
            else { assert(rank(s1[i]) <= rank(s1[j])); }
        }
        assert forall|i: int, j: int| 0 <= i <= j < s.len() && s[i] is Approved && s[j] is Approved implies s[i] == s[j] by {
            if j == n {
                if i < n {
                    assert(rank(s1[i]) <= rank(s1[n - 1]));
                    assert(rank(s[n - 1]) <= 1);
                    if s[n - 1] is Approved { assert(s1[i] == s1[n - 1]); }
                }
            } else { assert(s1[i] == s1[j]); }
        }
        // at most one consumption: a consumption needs Approved before and leaves Executed
        if consumed[n - 1] {
            assert(s[n - 1] is Approved);
            if count_true(c1) == 1 { assert(s1.last() is Executed); assert(false); }
        }
        assert(consumed.drop_last() == c1);
        if count_true(consumed) == 1 && !consumed[n - 1] {
            assert(count_true(c1) == 1);
            assert(s[n - 1] is Executed);
        }
    }
}

// =================================================================================================
// C05 — custody of a canonical (lock/unlock) token held by the service
// =================================================================================================
pub enum Step05 {
    /// successful outbound interchain_transfer of a LockUnlock token: C05.takes_exact_amount_of_registered_token (amount > 0: C05.transfer_needs_positive_amount)
    Lock { amount: int },
    /// successful inbound transfer for a LockUnlock token: C05.inbound_credits_exact_amount; the token's
    /// transfer(service -> recipient) succeeds only if the service's balance covers it: C12.transfer_needs_balance,
    /// and rejects negative amounts: C12.transfer_rejects_negative (the decoder yields amount >= 0: C10.amount_*)
    Release { amount: int },
    /// every other service entry point makes no transfer/burn/mint call on this token
    /// (frames: C05.routing_frame, C18.moves_no_funds_and_writes_nothing, C11.register_moves_nothing, C04.deploy_arm_moves_no_funds, …)
    Other,
}

pub open spec fn step05(pre: int, st: Step05, post: int) -> bool {
    match st {
        Step05::Lock { amount } => amount > 0 && post == pre + amount,
        Step05::Release { amount } => amount >= 0 && pre >= amount && post == pre - amount,
        Step05::Other => post == pre,
    }
}
pub open spec fn locked(steps: Seq<Step05>) -> int decreases steps.len() {
    if steps.len() == 0 { 0 } else { locked(steps.drop_last()) + match steps.last() { Step05::Lock { amount } => amount, _ => 0 } }
}
pub open spec fn released(steps: Seq<Step05>) -> int decreases steps.len() {
    if steps.len() == 0 { 0 } else { released(steps.drop_last()) + match steps.last() { Step05::Release { amount } => amount, _ => 0 } }
}
pub open spec fn history05(c: Seq<int>, steps: Seq<Step05>) -> bool {
    c.len() == steps.len() + 1 && forall|i: int| 0 <= i < steps.len() ==> step05(c[i], #[trigger] steps[i], c[i + 1])
}

/// C05.history_custody: custody == total locked - total released, and is never negative
/// (custody moved by the service; tokens sent to the service by third parties only add to its balance)
pub proof fn c05_history_custody(c: Seq<int>, steps: Seq<Step05>)
    requires history05(c, steps), c[0] == 0,
    ensures c.last() == locked(steps) - released(steps), forall|i: int| 0 <= i < c.len() ==> c[i] >= 0,
    decreases steps.len(),
{
    if steps.len() > 0 {
        let n = steps.len() as int;
        let c1 = c.drop_last(); let st1 = steps.drop_last();
        assert(history05(c1, st1)) by {
            assert forall|i: int| 0 <= i < st1.len() implies step05(c1[i], #[trigger] st1[i], c1[i + 1]) by { assert(step05(c[i], steps[i], c[i + 1])); }
        }
        c05_history_custody(c1, st1);
        assert(step05(c[n - 1], steps[n - 1], c[n]));
        assert(c1.last() == c[n - 1]);
        assert forall|i: int| 0 <= i < c.len() implies c[i] >= 0 by { if i < n { assert(c1[i] >= 0); } }
    }
}

// =================================================================================================
// C14 — the gas service's balance of one token
// =================================================================================================
pub enum Step14 {
    /// pay_gas / add_gas: C14.payment_needs_positive_amount, C14.payment_moves_exact_amount (resp. topup_*)
    PayIn { amount: int },
    /// collect_fees / refund: C14.collect_moves_exact_amount / C14.refund_moves_exact_amount; the token's transfer
    /// succeeds only within the balance and for a non-negative amount: C12.transfer_needs_balance, C12.transfer_rejects_negative
    PayOut { amount: int },
    /// any other entry point of the gas service: no token call (C14.ctor_moves_nothing, C06/C15 frames)
    Other,
}
pub open spec fn step14(pre: int, st: Step14, post: int) -> bool {
    match st {
        Step14::PayIn { amount } => amount > 0 && post == pre + amount,
        Step14::PayOut { amount } => amount >= 0 && pre >= amount && post == pre - amount,
        Step14::Other => post == pre,
    }
}
pub open spec fn paid_in(steps: Seq<Step14>) -> int decreases steps.len() {
    if steps.len() == 0 { 0 } else { paid_in(steps.drop_last()) + match steps.last() { Step14::PayIn { amount } => amount, _ => 0 } }
}
pub open spec fn paid_out(steps: Seq<Step14>) -> int decreases steps.len() {
    if steps.len() == 0 { 0 } else { paid_out(steps.drop_last()) + match steps.last() { Step14::PayOut { amount } => amount, _ => 0 } }
}
pub open spec fn history14(b: Seq<int>, steps: Seq<Step14>) -> bool {
    b.len() == steps.len() + 1 && forall|i: int| 0 <= i < steps.len() ==> step14(b[i], #[trigger] steps[i], b[i + 1])
}

/// C14.history_balance: balance == payments and top-ups received - fees collected and refunds issued, never negative
pub proof fn c14_history_balance(b: Seq<int>, steps: Seq<Step14>)
    requires history14(b, steps), b[0] == 0,
    ensures b.last() == paid_in(steps) - paid_out(steps), forall|i: int| 0 <= i < b.len() ==> b[i] >= 0,
    decreases steps.len(),
{
    if steps.len() > 0 {
        let n = steps.len() as int;
        let b1 = b.drop_last(); let st1 = steps.drop_last();
        assert(history14(b1, st1)) by {
            assert forall|i: int| 0 <= i < st1.len() implies step14(b1[i], #[trigger] st1[i], b1[i + 1]) by { assert(step14(b[i], steps[i], b[i + 1])); }
        }
        c14_history_balance(b1, st1);
        assert(step14(b[n - 1], steps[n - 1], b[n]));
        assert(b1.last() == b[n - 1]);
        assert forall|i: int| 0 <= i < b.len() implies b[i] >= 0 by { if i < n { assert(b1[i] >= 0); } }
    }
}

// vacuity witnesses: each step relation admits a non-trivial history
pub proof fn witnesses() {
    let s = seq![Status::NotApproved, Status::Approved(7), Status::Executed];
    let st = seq![Step02::Approve { h: 7 }, Step02::Validate { h: 7 }];
    let c = seq![false, true];
    assert(step02(s[0], st[0], s[1], c[0]));
    assert(step02(s[1], st[1], s[2], c[1]));
    assert(history02(s, st, c));
    let cu = seq![0int, 5, 2];
    let s5 = seq![Step05::Lock { amount: 5 }, Step05::Release { amount: 3 }];
    assert(step05(cu[0], s5[0], cu[1]));
    assert(step05(cu[1], s5[1], cu[2]));
    assert(history05(cu, s5));
    let s14 = seq![Step14::PayIn { amount: 5 }, Step14::PayOut { amount: 3 }];
    assert(step14(cu[0], s14[0], cu[1]));
    assert(step14(cu[1], s14[1], cu[2]));
    assert(history14(cu, s14));
}

} // verus!
fn main() {}
