#!/usr/bin/env python3
"""Writes MANIFEST.json from the check registry (checks.json) and the per-property notes below."""
import json, os

HERE = os.path.dirname(os.path.abspath(__file__))
checks = json.load(open(os.path.join(HERE, "checks.json")))
props = [json.loads(l) for l in open(os.path.join(HERE, "properties.jsonl"))]

COMMON_NOTE = (
    "Trusted: the abstract-host shim of soroban-sdk (kani/shim; axioms A-ROLLBACK, A-FRAME, A-AUTH, A-XDR-INJ, A-KECCAK-CR, A-ED25519, A-CALL, A-DEPLOY, A-TTL — exercised on the real host by replay/conformance.py in the thorough tier), "
    "the shim's contracttype/contractclient macros, mirror crate roots (lib.rs/Cargo.toml only; every other module is /repo's file compiled unmodified), Kani 0.68/CBMC 6.11, Verus 0.2026.09.13/Z3. "
    "A refused call is an Err return or a trap; that the host then rolls everything back is A-ROLLBACK (assumed, not proved). Machine arithmetic is not idealised (overflow = trap)."
)

NOTES = {
    "C01": ("Verus proves, for signer sets of any size, on the mechanically extracted validate_proof / validate_signatures / message_hash_to_sign / weighted_signers / hash: soundness (Ok => registered retained set, quorum of valid signatures over keccak(domain||set hash||data hash)) and completeness (any sufficiently heavy subset of honest signatures is accepted, no trap). Kani proves on the unmodified contract.rs that approve_messages / validate_proof (entry) ask exactly that verdict over keccak(xdr((ApproveMessages, batch))) before any effect and propagate refusal. The approve loop is bounded (0,1,2 messages). The same clauses are also stated as Kani harnesses on the unmodified auth.rs / types.rs (validate_proof for any size with its two list-inspecting callees replaced by contracts; validate_signatures and weighted_signers bounded to 2-3 proof entries), so that a change which gives those functions a shape the Verus extraction cannot handle is still decided.",
            "contract-based deductive verification: Verus (unbounded loops, extracted functions) + Kani function-contract harnesses with contract stubs on the real source"),
    "C02": ("Kani: validate_message consumes iff the stored record is Approved(hash of the exact message for this caller), marks Executed, one event, frame; queries agree with storage; approve step (bounded 1,2 messages incl. in-batch duplicate) never touches a known id; a syntactic writer-frame scan shows no other function writes MessageApproval; key-agnostic scenario harnesses (separately compiled, naming exported entry points only) restate independence of distinct (chain, id) pairs and the approve -> consume-once -> executed lifecycle through the public queries. The history clause (status only moves forward, approved content never changes, consumed at most once) is a Verus-checked induction (verus/lemmas.rs) over a hand-transcribed step relation made of exactly these obligations.",
            "Kani function-contract harnesses over arbitrary pre-state (lazy symbolic storage) + writer-frame scan + Verus history lemma"),
    "C03": ("Verus: validate_signers Ok => well-formed (any size). Kani: auth::rotate_signers Ok => validated first, epoch+1, both lookups written for keccak(xdr(set)), never installed before, one event, frame; the epoch<->set inverse-lookup invariant is preserved (arbitrary-witness encoding); the entry point binds the proof to (RotateSigners, this set), needs latest-or-bypass, operator auth for bypass. Construction (initialize_auth) is bounded (0,1,2 initial sets of any size).",
            "Verus loop invariant + Kani contracts with callee stubs and an inductive storage invariant"),
    "C04": ("Kani, modularly: execute consumes the gateway approval for exactly (service, chain, id, source address, keccak(payload)) first and only then runs execute_message; get_execute_params accepts only hub chain + ReceiveFromHub + trusted origin (codec replaced by its contract); each arm of execute_message performs exactly one credit / one deployment+registration with the decoded values. KNOWN FINDING: the hub address is never compared (C04.hub_address_checked).",
            "Kani function-contract harnesses, callee contracts as stubs (codec contract assumed from C10)"),
    "C05": ("Kani: interchain_transfer takes exactly the positive amount on the registered token (burn / custody transfer), announces exactly that via pay_gas_and_call_contract (stubbed by its contract), which in turn is proved to pay gas from the caller and call the gateway with the same SendToHub payload only for a trusted destination; inbound arm credits exactly the announced amount; take/give_token exact. The custody equation over histories (custody = locked - released >= 0) is a Verus-checked induction (verus/lemmas.rs) over a hand-transcribed step relation made of these per-step obligations and the token contract (C12, included).",
            "Kani function-contract harnesses + Verus history lemma over the proved step contracts"),
    "C06": ("Kani, one harness per administrative entry point of every contract (real derive-generated code): returns only if the role holder stored at entry is in the require_auth log, before any write; transfers store exactly the successor and name (previous, new).",
            "Kani function-contract harnesses with an authorisation oracle (all principals at once)"),
    "C07": ("Kani, one harness per spending / burning / sending / consuming / deploying / forwarding entry point: returns only if the address named in the arguments is in the require_auth log, before the effect; delegated operations debit `from` against the allowance of exactly (from, spender).",
            "Kani function-contract harnesses with an authorisation oracle"),
    "C08": ("Verus on validate_proof: Ok => Epoch - e <= retention and the latest flag is exact; completeness: a retained set is never refused (no trap, any retention up to u64::MAX). Kani: both entry points take their verdict only from validate_proof; non-bypass rotation needs the latest set; the epoch counts installed sets only (a refused installation is never swallowed); validate_proof itself is also decided under Kani (retention window, latest flag, read-only, refused only when unregistered / outdated / insufficient signatures).",
            "Verus (both directions) + Kani contracts on the entry points"),
    "C09": ("Kani, full domain: update_rotation_timestamp refuses exactly when enforcing and now-last < minimum; every success restarts the clock; rotate_signers forwards enforce == !bypass; bypass needs the operator.",
            "Kani function-contract harnesses (loop-free, full-domain symbolic inputs: complete)"),
    "C10": ("PARTIAL. Decided for all inputs: to_i128 (accept <=> value <= i128::MAX, exact value), get_message_type on every 32-byte head (accept <=> canonical padding and tag 0..4) and on short input, the tag values written, optional-byte-field mapping (absent <-> empty; bounded content length), and that every alloy decode call site passes validate=true (scan). NOT decided deductively: byte-exactness and canonical-only acceptance of alloy-sol-types' abi_encode_params / abi_decode_params (third-party generic code; does not terminate in CBMC) — carried as assumed contract A-ALLOY, with a BOUNDED stand-in that is not counted as proved: a sampled differential test of the real codec on the real host against an independent ABI encoder (replay/codec.py: 300/5000 random messages, field lengths <= 70, ~110 corrupted inputs each). KNOWN FINDING from it: a length word in [2^64-32, 2^64-1] makes the decoder panic instead of returning Err.",
            "Kani on the codec's own helper functions (full domain) + syntactic call-site scan; alloy's codec assumed, with a bounded sampled differential test on the real host as stand-in"),
    "C11": ("Kani: the three id derivations equal independently written keccak/xdr terms and never collide; deploy_interchain_token / register_canonical_token / remote-deploy arm write the registry once for a free id, deploy at the address derived from (service, id) with (owner = service, designated minter, id, metadata), credit the initial supply to the deployer; token constructor gives minting rights to owner and designated minter only. KNOWN FINDING: ITS revokes its own minter role when initial_supply>0 and a minter is given (C11.its_remains_minter).",
            "Kani function-contract harnesses; deploy_v2 modelled by axiom A-DEPLOY"),
    "C12": ("Kani on every token entry point with symbolic balances / allowances / ledger: exact amounts, non-negativity preserved, frames (supply changes only by mint/burn), expiry boundary in both directions, events naming the true parties; honest transfers / delegated transfers are accepted (no-trap mode).",
            "Kani function-contract harnesses, safety and no-trap modes"),
    "C13": ("Kani: call_contract returns only under the sender's auth, emits exactly one contract_called event with keccak256(payload) and the payload, writes nothing.", "Kani function-contract harness (complete: loop-free, full domain)"),
    "C14": ("Kani: pay_gas / add_gas need a positive amount and the spender's auth and make exactly one transfer spender->service; collect_fees / refund need the stored collector's auth, never exceed the reported balance (collect_fees), one transfer service->receiver; one event each; nothing else moves funds. The balance equation over histories (balance = paid in - paid out >= 0) is a Verus-checked induction (verus/lemmas.rs) over a hand-transcribed step relation of these obligations and the token's transfer contract (C12 / assumed standard for foreign tokens).",
            "Kani function-contract harnesses + Verus history lemma"),
    "C15": ("Kani on the real derive-generated upgrade/migrate of all five upgradable contracts and on Upgrader::upgrade: owner auth first, window opened by upgrade, migrate only while open and closes it, one upgraded event; Upgrader: exactly version, upgrade, migrate, version and Err unless the final version is the requested different one.",
            "Kani function-contract harnesses"),
    "C16": ("Kani: the default validate_message (on a minimal app) is Ok iff gateway.validate_message(app, same ids, keccak(payload)) returned true; Example::execute acts only after that (defect found and fixed: it ignored the result); exactly-once is the gateway's C02 contract.",
            "Kani function-contract harnesses across crates (gateway contract as oracle)"),
    "C17": ("Kani: execute forwards exactly (contract, function, arguments of any length) once and returns the result, only for a current operator with its own auth; add/remove by the owner, absent->present / present->absent, frame; writer-frame scan; key-agnostic scenario harnesses (membership survives an ownership transfer; add then remove changes exactly one membership).", "Kani function-contract harnesses + writer-frame scan"),
    "C18": ("Kani: remote deployments look the token up under the id derived from the caller's own (deployer, salt) or the canonical address, require registration, use the token's own name/symbol/decimals, refuse unrepresentable metadata, announce exactly that deploy message with no minter via pay_gas_and_call_contract (trusted destination, gas from the payer), move nothing else.",
            "Kani function-contract harnesses with callee contract stubs"),
}

claimed = [p["id"] for p in props if p["id"] in checks]
manifest = {
    "version": 1,
    "setup_cmd": "./setup.sh",
    "hooks": {
        "guard": "axelar_cgp_soroban_verif",
        "enable": "none needed: the checks compile /repo's unmodified sources (Kani: mirror crates that include! the real files; Verus: mechanical extraction on every run); no hook exists in /repo",
        "baseline_off_cmd": "cd /repo && cargo test --workspace --no-fail-fast --offline",
        "source_commits": [],
        "add_only": True,
    },
    "engines": [
        {"name": "kani-contracts", "path": "kani/", "serves_properties": claimed, "kind_free_text": "Kani 0.68 / CBMC: contract harnesses + contract stubs on the real source files against an abstract-host shim of soroban-sdk"},
        {"name": "verus-extract", "path": "verus/", "serves_properties": ["C01", "C03", "C08"], "kind_free_text": "Verus: requires/ensures/invariants spliced onto functions extracted mechanically from /repo on every run"},
        {"name": "scans", "path": "scans.py", "serves_properties": ["C02", "C03", "C10", "C17"], "kind_free_text": "syntactic obligations on the real source text (writer frames, strict-decode flag)"},
        {"name": "real-host-replay", "path": "replay/", "serves_properties": ["C02", "C04", "C11", "C12", "C13", "C16"], "kind_free_text": "scenarios and shim-conformance tests on the real soroban-sdk testutils host"},
    ],
    "checks": [],
    "notes": "All checks: ./check <ID> [--tier quick|thorough]; exit 0 = every obligation discharged (KNOWN-FINDING lines for listed defects), 1 = a named obligation failed (VIOLATION line), 2 = undecided (never an alarm). known_findings.json lists 2 fixed and 3 known defects. See DESIGN.md.",
    "not_applicable": [],
}
for p in props:
    pid = p["id"]
    if pid in checks:
        text, tech = NOTES[pid]
        manifest["checks"].append({
            "property_id": pid,
            "quick_cmd": f"./check {pid} --tier quick",
            "thorough_cmd": f"./check {pid} --tier thorough",
            "evidence_file": f"/verif/evidence/{pid}.json",
            "replay_cmd_template": "./check --replay {path}",
            "engine": "kani-contracts" + ("+verus-extract" if checks[pid].get("verus") else ""),
            "level_claimed": {"category": "proof", "text": text, "design_ref": "DESIGN.md §4 " + pid + " and §11"},
            "level_note": COMMON_NOTE,
            "technique": tech,
        })
    else:
        manifest["not_applicable"].append({"property_id": pid, "reason": "check not built yet"})
json.dump(manifest, open(os.path.join(HERE, "MANIFEST.json"), "w"), indent=1)
print("MANIFEST: claimed", claimed, "not_applicable", [x["property_id"] for x in manifest["not_applicable"]])
