#!/usr/bin/env python3
"""Single source of the per-property check configuration; writes checks.json (read by ./check)."""
import json, os

GW, GAS, OPS, UPG, TOK, EX, ITS = "axelar-gateway", "axelar-gas-service", "axelar-operators", "upgrader", "interchain-token", "example", "interchain-token-service"


def k(crate, harness, fns, bounded=None, mode=None, tier=None, all_obl=False):
    d = {"crate": crate, "harness": harness, "functions": fns if isinstance(fns, list) else [fns]}
    if bounded:
        d["bounded"] = bounded
    if mode:
        d["mode"] = mode
    if tier:
        d["tier"] = tier
    if all_obl:
        d["all_obl"] = True
    return d


A = "auth::verif::"
C = "contract::verif::"

gw_rotate_auth = [
    k(GW, A + "c03_rotate_signers", "auth::rotate_signers"),
    k(GW, A + "c03_rotate_signers_preserves_lookup_invariant", "auth::rotate_signers (invariant I-GW)"),
]
gw_ctor = [
    k(GW, A + "c03_initialize_auth_n0_bounded", "auth::initialize_auth", bounded="exactly 0 initial signer sets"),
    k(GW, A + "c03_initialize_auth_n1_bounded", "auth::initialize_auth", bounded="exactly 1 initial signer set (of any size)"),
    k(GW, A + "c03_initialize_auth_n2_bounded", "auth::initialize_auth", bounded="exactly 2 initial signer sets (of any size)"),
]
gw_approve = [
    k(GW, C + "c01_approve_messages_n0_bounded", "AxelarGateway::approve_messages", bounded="batch of exactly 0 messages"),
    k(GW, C + "c01_approve_messages_n1_bounded", "AxelarGateway::approve_messages", bounded="batch of exactly 1 message"),
    k(GW, C + "c01_approve_messages_n2_bounded", "AxelarGateway::approve_messages", bounded="batch of exactly 2 messages (incl. in-batch duplicate)"),
]
gw_rotate_entry = k(GW, C + "c03_rotate_signers_entry", "AxelarGateway::rotate_signers")
gw_update_ts = k(GW, A + "c09_update_rotation_timestamp", "auth::update_rotation_timestamp")

checks = {
    "_assumptions": [
        "A-ROLLBACK: a contract frame that traps or returns Err is rolled back by the Soroban host (not provable on the repository's code; exercised by the shim conformance test)",
        "A-FRAME: a storage write affects only its key",
        "A-AUTH: require_auth binds the authorisation to the current invocation (contract, function, arguments)",
        "A-XDR-INJ: to_xdr is injective; A-KECCAK-CR: keccak256 is collision-free among the terms of one run and is Keccak-256",
        "A-ED25519: ed25519_verify traps exactly when the signature is invalid",
        "A-CALL: a failing callee traps the caller; client return values are arbitrary values of the declared type",
        "A-TTL: no entry is archived or expires (extend_ttl is a no-op)",
        "machine arithmetic is NOT idealised: overflow-checks are on (as in the release profile); an overflow is a trap",
    ],
    "_trusted_base": [
        "abstract-host shim /verif/kani/shim/soroban-sdk (assumed contract of soroban-sdk 22.0.2): symbolic lazily-initialised storage, auth oracle, event/call/deploy logs, uninterpreted injective xdr/keccak/intern",
        "shim proc-macros contracttype/contracterror/contractclient (fixed-width injective word encodings; client calls are logged and return symbolic values)",
        "mirror crate roots (lib.rs/Cargo.toml) differ from the real ones: no #![no_std], no feature switches, no test modules; every other module is the repository's file compiled unmodified",
        "real soroban-token-sdk 22.0.2 sources compiled against the shim",
        "Kani 0.68.0 / CBMC 6.11 / cadical; Verus 0.2026.09.13 / Z3",
        "hand-written Kani renderings (contract stubs) of the Verus-proved contracts validate_signers / validate_proof",
    ],
    "_replay_scenarios": {},
    "C01": {
        "verus": ["C01."],
        "kani": gw_approve + [k(GW, C + "c01_validate_proof_entry", "AxelarGateway::validate_proof")],
    },
    "C02": {
        "scans": ["c02_writers"],
        "kani": [
            k(GW, C + "c02_validate_message", "AxelarGateway::validate_message"),
            k(GW, C + "c02_is_message_approved", "AxelarGateway::is_message_approved"),
            k(GW, C + "c02_is_message_executed", "AxelarGateway::is_message_executed"),
        ] + gw_approve,
    },
    "C03": {
        "verus": ["C03."],
        "scans": ["c03_writers"],
        "kani": gw_rotate_auth + [gw_rotate_entry] + gw_ctor,
    },
    "C08": {
        "verus": ["C08."],
        "kani": [gw_rotate_entry] + gw_approve[1:2] + [k(GW, C + "c01_validate_proof_entry", "AxelarGateway::validate_proof", all_obl=True)],
    },
    "C09": {
        "kani": [gw_update_ts, k(GW, A + "c03_rotate_signers", "auth::rotate_signers", all_obl=False), gw_rotate_entry],
    },
    "C13": {
        "kani": [k(GW, C + "c13_call_contract", "AxelarGateway::call_contract")],
    },
}

if __name__ == "__main__":
    here = os.path.dirname(os.path.abspath(__file__))
    json.dump(checks, open(os.path.join(here, "checks.json"), "w"), indent=1)
    print("wrote checks.json:", [x for x in checks if not x.startswith("_")])
