#!/usr/bin/env python3
"""Single source of the per-property check configuration; writes checks.json (read by ./check)."""
import json, os

GW, GAS, OPS, UPG, TOK, EX, ITS = "axelar-gateway", "axelar-gas-service", "axelar-operators", "upgrader", "interchain-token", "example", "interchain-token-service"


def k(crate, harness, fns, bounded=None, mode=None, tier=None, all_obl=False, also=None):
    d = {"crate": crate, "harness": harness, "functions": fns if isinstance(fns, list) else [fns]}
    if bounded:
        d["bounded"] = bounded
    if mode:
        d["mode"] = mode
    if tier:
        d["tier"] = tier
    if all_obl:
        d["all_obl"] = True
    if also:
        d["also"] = also
    return d


A = "auth::verif::"
C = "contract::verif::"

gw_rotate_auth = [
    k(GW, A + "c03_rotate_signers", "auth::rotate_signers"),
    k(GW, A + "c03_rotate_signers_preserves_lookup_invariant", "auth::rotate_signers (invariant I-GW)"),
]
gw_ctor = [
    k(GW, A + "c03_initialize_auth_n0_bounded", "auth::initialize_auth", bounded="exactly 0 initial signer sets"),
    k(GW, A + "c03_initialize_auth_n1_bounded", "auth::initialize_auth", bounded="exactly 1 initial signer set (of any size)"),
    k(GW, A + "c03_initialize_auth_n2_bounded", "auth::initialize_auth", bounded="exactly 2 initial signer sets (of any size)"),
]
gw_approve = [
    k(GW, C + "c01_approve_messages_n0_bounded", "AxelarGateway::approve_messages", bounded="batch of exactly 0 messages"),
    k(GW, C + "c01_approve_messages_n1_bounded", "AxelarGateway::approve_messages", bounded="batch of exactly 1 message"),
    k(GW, C + "c01_approve_messages_n2_bounded", "AxelarGateway::approve_messages", bounded="batch of exactly 2 messages (incl. in-batch duplicate)"),
]
gw_approve3 = k(GW, C + "c01_approve_messages_n3_bounded", "AxelarGateway::approve_messages", bounded="batch of exactly 3 messages (incl. in-batch duplicates)", tier="thorough")
gw_rotate_entry = k(GW, C + "c03_rotate_signers_entry", "AxelarGateway::rotate_signers")
gw_update_ts = k(GW, A + "c09_update_rotation_timestamp", "auth::update_rotation_timestamp")

checks = {
    "_assumptions": [
        "A-ROLLBACK: a contract frame that traps or returns Err is rolled back by the Soroban host (not provable on the repository's code; exercised by the shim conformance test)",
        "A-FRAME: a storage write affects only its key",
        "A-AUTH: require_auth binds the authorisation to the current invocation (contract, function, arguments)",
        "A-XDR-INJ: to_xdr is injective; A-KECCAK-CR: keccak256 is collision-free among the terms of one run and is Keccak-256",
        "A-ED25519: ed25519_verify traps exactly when the signature is invalid",
        "A-CALL: a failing callee traps the caller; client return values are arbitrary values of the declared type",
        "A-TTL: no entry is archived or expires (extend_ttl is a no-op)",
        "machine arithmetic is NOT idealised: overflow-checks are on (as in the release profile); an overflow is a trap",
    ],
    "_trusted_base": [
        "abstract-host shim /verif/kani/shim/soroban-sdk (assumed contract of soroban-sdk 22.0.2): symbolic lazily-initialised storage, auth oracle, event/call/deploy logs, uninterpreted injective xdr/keccak/intern",
        "shim proc-macros contracttype/contracterror/contractclient (fixed-width injective word encodings; client calls are logged and return symbolic values)",
        "mirror crate roots (lib.rs/Cargo.toml) differ from the real ones: no #![no_std], no feature switches, no test modules; every other module is the repository's file compiled unmodified",
        "real soroban-token-sdk 22.0.2 sources compiled against the shim",
        "Kani 0.68.0 / CBMC 6.11 / cadical; Verus 0.2026.09.13 / Z3",
        "hand-written Kani renderings (contract stubs) of the Verus-proved contracts validate_signers / validate_proof",
    ],
    "_replay_scenarios": {
        "C16.example_validates": "c16_example_validates",
        "C12.set_admin_event": "c12_set_admin_event",
        "C04.hub_address_checked": "c04_hub_address_checked",
        "C11.its_remains_minter": "c11_its_remains_minter",
        "C02.consume_iff_exact_approval": "c02_consume_once",
        "C02.consumed_marks_executed": "c02_consume_once",
        "C02.one_executed_event": "c02_consume_once",
        "C13.one_exact_announcement": "c13_call_contract_event",
    },
    "C01": {
        "verus": ["C01."],
        "kani": gw_approve + [gw_approve3, k(GW, C + "c01_validate_proof_entry", "AxelarGateway::validate_proof"),
                              k(GW, C + "c01_weighted_signers_n3_bounded", "Proof::weighted_signers", bounded="a proof of exactly 3 entries (the Verus contract C01.weighted_signers.* covers any length)")],
    },
    "C02": {
        "scans": ["c02_writers"],
        "kani": [
            k(GW, C + "c02_validate_message", "AxelarGateway::validate_message"),
            k(GW, C + "c02_is_message_approved", "AxelarGateway::is_message_approved"),
            k(GW, C + "c02_is_message_executed", "AxelarGateway::is_message_executed"),
        ] + gw_approve + [gw_approve3],
    },
    "C03": {
        "verus": ["C03.", "C08.validate_proof.latest_flag"],
        "scans": ["c03_writers"],
        "kani": gw_rotate_auth + [gw_rotate_entry, k(GW, C + "c03_lookup_views", "AxelarGateway::epoch / epoch_by_signers_hash / signers_hash_by_epoch")] + gw_ctor,
    },
    "C08": {
        "verus": ["C08."],
        # the configured retention must be the one construction stores
        # ... and the epoch must count installed sets only: "n newer sets have been installed" is measured as an epoch difference
        "kani": [dict(h, also=["C03.ctor_retention_stored", "C03.ctor_epoch_counts_sets", "C03.ctor_propagates_refusal"]) for h in gw_ctor] + [dict(gw_rotate_entry, also=["C03.entry_propagates_refusal"]), dict(gw_rotate_auth[0], also=["C03.never_installed_before", "C03.epoch_by_hash_set", "C03.epoch_plus_one"])] + [dict(gw_approve[1], also=["C01.approve_only_with_valid_proof", "C01.approve_digest", "C01.approve_err_is_proof_err"])] + [k(GW, C + "c01_validate_proof_entry", "AxelarGateway::validate_proof", also=["C01.entry"])],
    },
    "C09": {
        "kani": [gw_update_ts, k(GW, A + "c03_rotate_signers", "auth::rotate_signers", also=["C03.delay_flag_forwarded"]), dict(gw_rotate_entry, also=["C06.bypass_needs_operator"])],
    },
    "C13": {
        "kani": [k(GW, C + "c13_call_contract", "AxelarGateway::call_contract"),
                 k(GW, C + "c13_call_contract_text_len2_bounded", "AxelarGateway::call_contract", bounded="destination chain = a string of exactly 2 arbitrary bytes (content-level model; the unbounded harness treats strings as abstract identities)")],
    },
}


T = "contract::verif::"
tok = lambda h, f, **kw: k(TOK, T + h, "InterchainToken::" + f, **kw)
gas = lambda h, f, **kw: k(GAS, T + h, "AxelarGasService::" + f, **kw)
ops = lambda h, f, **kw: k(OPS, T + h, "AxelarOperators::" + f, **kw)

token_all = [
    tok("c12_transfer", "transfer"), tok("c12_transfer_notrap", "transfer", mode="notrap"),
    tok("c12_approve", "approve"), tok("c12_allowance_query", "allowance / read_allowance"), tok("c12_balance_query", "balance"),
    tok("c12_transfer_from", "transfer_from / spend_allowance"), tok("c12_transfer_from_notrap", "transfer_from", mode="notrap"),
    tok("c12_burn", "burn"), tok("c12_burn_from", "burn_from"),
    tok("c12_mint_from", "mint_from"), tok("c12_owner_mint", "mint"),
    tok("c12_set_admin", "set_admin"), tok("c12_transfer_ownership_event", "transfer_ownership"),
    tok("c12_burn_notrap", "burn", mode="notrap"), tok("c12_mint_from_notrap", "mint_from", mode="notrap"), tok("c12_approve_notrap", "approve", mode="notrap"),
]
token_admin = [tok("c06_token_add_minter", "add_minter"), tok("c06_token_remove_minter", "remove_minter"), tok("c06_token_transfer_ownership", "transfer_ownership"),
               tok("c12_owner_mint", "mint"), tok("c12_set_admin", "set_admin")]
gas_all = [gas("c14_pay_gas", "pay_gas"), gas("c14_add_gas", "add_gas"), gas("c14_collect_fees", "collect_fees"), gas("c14_refund", "refund"), gas("c14_constructor_and_view", "__constructor / gas_collector")]
ops_all = [ops("c17_execute", "execute"), ops("c17_add_operator", "add_operator"), ops("c17_remove_operator", "remove_operator"), ops("c17_is_operator_and_ctor", "is_operator / __constructor")]
upgrades = [
    k(GW, C + "c15_gateway_upgrade", "AxelarGateway::upgrade (derived) -> std::upgrade"), k(GW, C + "c15_gateway_migrate", "AxelarGateway::migrate (derived) -> std::migrate"),
    gas("c15_gas_upgrade", "upgrade (derived)"), gas("c15_gas_migrate", "migrate (derived)"),
    ops("c15_operators_upgrade", "upgrade (derived)"), ops("c15_operators_migrate", "migrate (derived)"),
    tok("c15_token_upgrade", "upgrade (derived)"), tok("c15_token_migrate", "migrate (derived)"),
    k(GW, C + "c15_std_migrate_custom_migration", "axelar_soroban_std::interfaces::migrate (generic, custom migration closure)"),
    k(GW, C + "c15_std_migrate_announces_contract_version", "axelar_soroban_std::interfaces::migrate (generic, version of the migrating contract)"),
    k(UPG, T + "c15_upgrader_upgrade", "Upgrader::upgrade"),
]
checks["C12"] = {"kani": token_all}
checks["C14"] = {"kani": [dict(h, also=["C06.collect", "C06.refund", "C07.pay_gas", "C07.add_gas"]) for h in gas_all]}
checks["C17"] = {"scans": ["c17_writers"], "kani": [dict(h, also=["C07.execute_needs_operator_auth", "C06.add_operator", "C06.remove_operator"]) for h in ops_all]}
checks["C15"] = {"kani": upgrades}
checks["C16"] = {"kani": [k(GW, "executable::verif::c16_default_validate_message", "AxelarExecutableInterface::validate_message (default)"), k(EX, T + "c16_example_execute", "Example::execute"),
                          k(GW, C + "c02_validate_message", "AxelarGateway::validate_message (the consumed approval: exactly once)", also=["C02.consume", "C02.refused"]),
                          dict(gw_approve[1], also=["C02.approve_step"]), dict(gw_approve[2], also=["C02.approve_step"])]}
checks["C06"] = {"kani": [
    k(GW, C + "c06_gateway_transfer_ownership", "AxelarGateway::transfer_ownership"), k(GW, C + "c06_gateway_transfer_operatorship", "AxelarGateway::transfer_operatorship"),
    k(GW, C + "c06_gateway_constructor", "AxelarGateway::__constructor"), gw_rotate_entry,
    # "skipping the rotation delay needs the operator": a rotation that does not restart the clock hands the operator's bypass to the next caller
    dict(gw_update_ts, also=["C09.clock_restarted", "C09.delay_enforced"]),
    gas("c06_gas_transfer_ownership", "transfer_ownership"), gas("c14_collect_fees", "collect_fees"), gas("c14_refund", "refund"), gas("c14_constructor_and_view", "__constructor"),
    ops("c06_operators_transfer_ownership", "transfer_ownership"), ops("c17_add_operator", "add_operator", also=["C17.add_absent_to_present", "C17.add_frame"]),
    ops("c17_remove_operator", "remove_operator", also=["C17.remove_present_to_absent", "C17.remove_frame"]), ops("c17_execute", "execute", also=["C17.only_current_operators"]),
] + token_admin + [dict(h, also=["C15.upgrade_needs_owner", "C15.migrate_needs_owner", "C15.migrate_frame", "C15.upgrade_frame"]) for h in upgrades[:-1]]}  # the frames: an upgrade / migration hands no role to anybody
checks["C07"] = {"kani": [
    # a negative amount would debit the counterparty without its authorisation, so the sign checks belong here too
    tok("c12_transfer", "transfer", also=["C12.transfer_rejects_negative"]), tok("c12_approve", "approve", also=["C12.approve"]),  # a dropped / partly applied approve leaves a spender with rights the holder no longer authorises
    tok("c12_transfer_from", "transfer_from", also=["C12.transfer_from_rejects_negative", "C12.transfer_from_needs_live_allowance", "C12.transfer_from_moves"]),
    tok("c12_burn", "burn", also=["C12.burn_needs_balance"]), tok("c12_burn_from", "burn_from", also=["C12.burn_from_needs", "C12.burn_from_removes"]),
    tok("c12_mint_from", "mint_from", also=["C12.mint_rejects_negative", "C12.only_current_minters_mint"]), tok("c12_owner_mint", "mint", also=["C12.owner_mint_adds_exact_amount", "C06.owner_mint_needs_owner"]),
    gas("c14_pay_gas", "pay_gas"), gas("c14_add_gas", "add_gas"),
    ops("c17_execute", "execute"),
    k(GW, C + "c13_call_contract", "AxelarGateway::call_contract", also=["C13.sender_authorised"]), k(GW, C + "c02_validate_message", "AxelarGateway::validate_message", also=["C02.consumer_authorised"]),
    k(EX, T + "c07_example_send", "Example::send"),
]}


its = lambda h, f, **kw: k(ITS, T + h, "InterchainTokenService::" + f, **kw)
its_c04 = [
    its("c04_execute_entry", "execute"),
    its("c04_get_execute_params", "get_execute_params"),
    its("c04_execute_message_transfer", "execute_message (transfer arm) / token_handler::give_token"),
    its("c04_execute_message_deploy", "execute_message (deploy arm) / deploy_interchain_token_contract / set_token_id_config"),
]
codec_amount = k(ITS, "abi::verif::c10_to_i128_full_domain", "abi::to_i128 (assumption of the decode contract used here)", also=["C10.amount"])
# "takes effect exactly once / unexecuted approval" rests on the gateway's C02 contracts (consume once; an executed id is never re-approved)
gw_once = [k(GW, C + "c02_validate_message", "AxelarGateway::validate_message (consumed exactly once)", also=["C02.consume", "C02.refused"]),
           dict(gw_approve[1], also=["C02.approve_step"]), dict(gw_approve[2], also=["C02.approve_step"])]
checks["C04"] = {"kani": its_c04 + gw_once + [its("c04_is_trusted_chain_view", "is_trusted_chain"), codec_amount, k(GW, "executable::verif::c16_default_validate_message", "AxelarExecutableInterface::validate_message (default)", also=["C16.default"]),
                          its("c06_its_constructor_and_views", "__constructor / views", also=["C04.hub_chain_name_constant"])]}
# the interchain token service is itself an executable-interface application
checks["C16"]["kani"] += [dict(its_c04[0], also=["C04.approval_consumed", "C04.and_execute_message", "C04.entry_frame"])]
checks["C05"] = {"kani": [
    its("c05_pay_gas_and_call_contract", "pay_gas_and_call_contract"), its("c05_interchain_transfer", "interchain_transfer / token_handler::take_token"),
    k(ITS, "token_handler::verif::c05_take_token", "token_handler::take_token"), k(ITS, "token_handler::verif::c05_give_token", "token_handler::give_token"),
    its_c04[2], codec_amount,
    # "credits exactly the announced amount" is per approved delivery: the inbound entry point consumes the gateway approval
    # (so a delivery cannot be replayed), through the default validate_message of the executable interface and the gateway's C02 contract
    dict(its_c04[0], also=["C04.approval_consumed", "C04.and_execute_message", "C04.entry_frame"]),
    k(GW, "executable::verif::c16_default_validate_message", "AxelarExecutableInterface::validate_message (default)", also=["C16.default"]),
    gw_once[0], gw_once[1], gw_once[2],  # ... and an executed id is never approved again
    gas("c14_pay_gas", "pay_gas", also=["C14.payment", "C07.pay_gas"]),  # the gas named in an outbound transfer is taken from the named spender
    # who may change a service-deployed token's supply: the minter set changes only as the owner says
    tok("c06_token_add_minter", "add_minter", also=["C06.add_minter"]), tok("c06_token_remove_minter", "remove_minter", also=["C06.remove_minter"]),
    # the token contract the service relies on for burns / mints / custody transfers (C12)
    tok("c12_transfer", "transfer", also=["C12.transfer", "C12.self_transfer", "C12.balances"]), tok("c12_burn", "burn", also=["C12.burn"]),
    tok("c12_mint_from", "mint_from", also=["C12.mint", "C12.only_current", "C12.refused_mint"]), tok("c12_owner_mint", "mint", also=["C12.owner_mint"]),
]}
checks["C11"] = {"kani": [
    its("c11_id_derivations", "interchain_token_deploy_salt / interchain_token_id / canonical_token_deploy_salt"),
    its("c11_deploy_interchain_token", "deploy_interchain_token / deploy_interchain_token_contract"),
    its("c11_register_canonical_token", "register_canonical_token"), its("c11_registry_views", "token_address / token_manager_type"),
    its("c11_deploy_needs_free_id", "deploy_interchain_token (registry invariant I-ITS)"), its("c11_register_preserves_registry_invariant", "register_canonical_token (registry invariant I-ITS)"),
    its("c11_remote_deploy_preserves_registry_invariant", "execute_message deploy arm (registry invariant I-ITS)"),
    its_c04[3],
    tok("c11_token_constructor", "__constructor"), tok("c11_token_views", "token_id / is_minter / decimals / name / symbol"),
]}
checks["C18"] = {"kani": [
    its("c18_deploy_remote_interchain_token", "deploy_remote_interchain_token"), its("c18_deploy_remote_canonical_token", "deploy_remote_canonical_token"),
    its("c18_deploy_remote_token", "deploy_remote_token"), its("c18_validate_token_metadata", "axelar_soroban_std::token::validate_token_metadata"),
    its("c05_pay_gas_and_call_contract", "pay_gas_and_call_contract", also=["C05.only_trusted_destination", "C05.gas_then_call", "C05.payload_is"]),
    # "the stated gas is paid from the payer": the service calls pay_gas; that the gas service then takes exactly that amount from the named spender is its own contract
    gas("c14_pay_gas", "pay_gas", also=["C14.payment", "C07.pay_gas"]),
]}
checks["C06"]["kani"] += [its("c06_its_set_trusted_chain", "set_trusted_chain"), its("c06_its_remove_trusted_chain", "remove_trusted_chain"), its("c06_its_constructor_and_views", "__constructor"),
                           its("c06_its_transfer_ownership", "transfer_ownership"),
                           its("c15_its_upgrade", "upgrade (derived)", also=["C15.upgrade_needs_owner", "C15.upgrade_frame"]), its("c15_its_migrate", "migrate (derived)", also=["C15.migrate_needs_owner", "C15.migrate_frame"])]
checks["C15"]["kani"] += [its("c15_its_upgrade", "upgrade (derived)"), its("c15_its_migrate", "migrate (derived)")]
checks["C07"]["kani"] += [its("c05_interchain_transfer", "interchain_transfer"), its("c11_deploy_interchain_token", "deploy_interchain_token"),
                           its("c18_deploy_remote_interchain_token", "deploy_remote_interchain_token")]


AB = "abi::verif::"
checks["C10"] = {"scans": ["c10_strict_flag"], "codec_differential": True, "kani": [
    k(ITS, AB + "c10_to_i128_full_domain", "abi::to_i128"),
    k(ITS, AB + "c10_message_type_tags", "impl From<MessageType> for U256"),
    k(ITS, AB + "c10_get_message_type_head", "abi::get_message_type (32-byte head, full domain)"),
    k(ITS, AB + "c10_get_message_type_short", "abi::get_message_type (short input)"),
    k(ITS, AB + "c10_optional_bytes_absent", "abi::into_vec / abi::from_vec"),
    k(ITS, AB + "c10_optional_bytes_empty_bounded", "abi::into_vec / abi::from_vec", bounded="present field of length 0"),
    k(ITS, AB + "c10_optional_bytes_len2_bounded", "abi::into_vec / abi::from_vec", bounded="present field of length 2, symbolic content"),
]}

# the set a proof is checked against is exactly the list of signers the proof names (Verus for any length; bounded Kani companion)
_ws = k(GW, C + "c01_weighted_signers_n3_bounded", "Proof::weighted_signers", bounded="a proof of exactly 3 entries (the Verus contract C01.weighted_signers.* covers any length)", also=["C01.weighted_signers"])
checks["C03"]["kani"].append(_ws)
checks["C08"]["kani"].append(_ws)
# Kani companions of the Verus contracts on validate_proof (any size; callees that look into the signer list replaced by
# their contracts) and validate_signatures (bounded: every signed/unsigned pattern of 2 and of 3 entries)
_vp = k(GW, A + "c08_validate_proof", "auth::validate_proof", also=["C01.vp_", "C08.vp_"])
_vs = [
    k(GW, A + "c01_validate_signatures_ss_bounded", "auth::validate_signatures", bounded="proof entries: SS (S = signed, U = unsigned; keys, weights, signatures, threshold, digest symbolic)"),
    k(GW, A + "c01_validate_signatures_su_bounded", "auth::validate_signatures", bounded="proof entries: SU (S = signed, U = unsigned; keys, weights, signatures, threshold, digest symbolic)"),
    k(GW, A + "c01_validate_signatures_us_bounded", "auth::validate_signatures", bounded="proof entries: US (S = signed, U = unsigned; keys, weights, signatures, threshold, digest symbolic)"),
    k(GW, A + "c01_validate_signatures_uu_bounded", "auth::validate_signatures", bounded="proof entries: UU (S = signed, U = unsigned; keys, weights, signatures, threshold, digest symbolic)"),
    k(GW, A + "c01_validate_signatures_sss_bounded", "auth::validate_signatures", bounded="proof entries: SSS (S = signed, U = unsigned; keys, weights, signatures, threshold, digest symbolic)"),
    k(GW, A + "c01_validate_signatures_ssu_bounded", "auth::validate_signatures", bounded="proof entries: SSU (S = signed, U = unsigned; keys, weights, signatures, threshold, digest symbolic)"),
    k(GW, A + "c01_validate_signatures_sus_bounded", "auth::validate_signatures", bounded="proof entries: SUS (S = signed, U = unsigned; keys, weights, signatures, threshold, digest symbolic)"),
    k(GW, A + "c01_validate_signatures_suu_bounded", "auth::validate_signatures", bounded="proof entries: SUU (S = signed, U = unsigned; keys, weights, signatures, threshold, digest symbolic)"),
    k(GW, A + "c01_validate_signatures_uss_bounded", "auth::validate_signatures", bounded="proof entries: USS (S = signed, U = unsigned; keys, weights, signatures, threshold, digest symbolic)"),
    k(GW, A + "c01_validate_signatures_usu_bounded", "auth::validate_signatures", bounded="proof entries: USU (S = signed, U = unsigned; keys, weights, signatures, threshold, digest symbolic)"),
    k(GW, A + "c01_validate_signatures_uus_bounded", "auth::validate_signatures", bounded="proof entries: UUS (S = signed, U = unsigned; keys, weights, signatures, threshold, digest symbolic)"),
    k(GW, A + "c01_validate_signatures_uuu_bounded", "auth::validate_signatures", bounded="proof entries: UUU (S = signed, U = unsigned; keys, weights, signatures, threshold, digest symbolic)"),
]
checks["C01"]["kani"] += [_vp] + _vs
checks["C08"]["kani"] += [_vp]
checks["C03"]["kani"] += [_vp]
# key-agnostic scenario harnesses (separately compiled API-only units: they name exported entry points only, so they
# still decide their clauses when a change gives the storage keys another type or shape and the main harnesses stop compiling)
GWA, OPSA = "axelar-gateway-api", "axelar-operators-api"
_gw_api = [
    k(GWA, C + "c02_api_other_ids_untouched", "AxelarGateway::approve_messages / is_message_approved / is_message_executed (scenario)", bounded="scenario: one approval step, one other id"),
    k(GWA, C + "c02_api_lifecycle", "AxelarGateway::approve_messages / validate_message / queries (scenario)", bounded="scenario: approve, consume, consume again — one message"),
    k(GWA, C + "c02_api_two_distinct_ids_from_empty_registry", "AxelarGateway::approve_messages (scenario from an empty registry)", bounded="scenario: one batch of two messages on an empty registry"),
]
checks["C02"]["kani"] += _gw_api
checks["C16"]["kani"] += [dict(_gw_api[1], also=["C02.api_consume", "C02.api_consumed"])]
checks["C17"]["kani"] += [
    k(OPSA, T + "c17_api_membership_only_by_add_remove", "AxelarOperators::is_operator / transfer_ownership (scenario)", bounded="scenario: one ownership transfer"),
    k(OPSA, T + "c17_api_add_then_remove", "AxelarOperators::add_operator / remove_operator / is_operator (scenario)", bounded="scenario: add then remove one address, one bystander"),
]
checks["C02"]["lemmas"] = ["c02_history_monotone"]
checks["C05"]["lemmas"] = ["c05_history_custody"]
checks["C14"]["lemmas"] = ["c14_history_balance"]

# the service-level checks that use the codec through its contract also run the sampled codec test (bounded stand-in for A-ALLOY)
for _p in ("C04", "C05", "C18"):
    checks[_p]["codec_differential"] = True

# exported-entry-point reachability frames: no entry point outside the ones under contract reaches the sink
def _add_scans(pid, names):
    checks[pid].setdefault("scans", [])
    for n in names:
        if n not in checks[pid]["scans"]:
            checks[pid]["scans"].append(n)
_add_scans("C13", ["c13_announcers"])
_add_scans("C02", ["c02_exported_writers"])
_add_scans("C03", ["c03_exported_writers"])
_add_scans("C14", ["c14_fund_movers"])
_add_scans("C12", ["c12_balance_writers", "c12_allowance_writers"])
_add_scans("C05", ["c05_token_movers"])
_add_scans("C11", ["c11_registry_writers"])
_add_scans("C17", ["c17_forwarders"])
_add_scans("C06", ["c06_role_writers"])
_add_scans("C07", ["c14_fund_movers", "c05_token_movers", "c17_forwarders", "c13_announcers"])
_add_scans("C16", ["c02_exported_writers", "c05_token_movers", "c11_registry_writers"])  # the service's effects are reachable only through entry points under contract
_add_scans("C04", ["c05_token_movers", "c11_registry_writers"])
_add_scans("C18", ["c05_token_movers"])

if __name__ == "__main__":
    here = os.path.dirname(os.path.abspath(__file__))
    json.dump(checks, open(os.path.join(here, "checks.json"), "w"), indent=1)
    print("wrote checks.json:", [x for x in checks if not x.startswith("_")])
