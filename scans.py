"""Syntactic obligations checked mechanically on the repository's real source text."""
import os, re


def _strip_tests(src):
    i = src.find("#[cfg(test)]")
    return src if i < 0 else src[:i]


def _strip_comments(src):
    return re.sub(r"//[^\n]*", "", src)


def _functions(src):
    """yield (name, body_text) for every `fn` in src (parameter list and body by bracket matching)"""
    for m in re.finditer(r"\bfn\s+([A-Za-z_0-9]+)\s*(?:<[^>{;]*>)?\s*\(", src):
        # end of the parameter list (it may contain braces: destructuring patterns)
        depth, q = 0, m.end() - 1
        while q < len(src):
            if src[q] == "(":
                depth += 1
            elif src[q] == ")":
                depth -= 1
                if depth == 0:
                    break
            q += 1
        j = src.find("{", q)
        k = src.find(";", q)
        if j < 0 or (0 <= k < j):
            continue
        depth, p = 0, j
        while p < len(src):
            if src[p] == "{":
                depth += 1
            elif src[p] == "}":
                depth -= 1
                if depth == 0:
                    break
            p += 1
        yield m.group(1), src[j:p + 1]


def _writers(repo, rel_files, key_pattern):
    """names of functions whose body writes (set/remove/update) a storage key matching key_pattern"""
    writers = {}
    for rel in rel_files:
        path = os.path.join(repo, rel)
        if not os.path.exists(path):
            return None
        src = _strip_comments(_strip_tests(open(path).read()))
        for name, body in _functions(src):
            for m in re.finditer(r"\.(set|remove|update)\s*\(", body):
                # the argument list of this call
                depth, p = 0, m.end() - 1
                while p < len(body):
                    if body[p] == "(":
                        depth += 1
                    elif body[p] == ")":
                        depth -= 1
                        if depth == 0:
                            break
                    p += 1
                args = body[m.end():p]
                if re.search(key_pattern, args):
                    writers.setdefault(name, []).append(rel)
    return writers


def _frame(repo, oid, files, key_pattern, allowed, what):
    w = _writers(repo, files, key_pattern)
    if w is None:
        return {"obligations": [{"id": oid, "status": "undecided", "detail": "source file missing"}]}
    extra = sorted(set(w) - set(allowed))
    missing = sorted(set(allowed) - set(w))
    if extra:
        return {"obligations": [{"id": oid, "status": "failed", "detail": f"{what} is also written by {extra} (allowed writers: {allowed})"}]}
    if missing:
        return {"obligations": [{"id": oid, "status": "undecided", "detail": f"lost anchor: expected writers {missing} not found"}]}
    return {"obligations": [{"id": oid, "status": "discharged", "detail": f"writers of {what}: {sorted(w)}"}]}


GW = ["contracts/axelar-gateway/src/contract.rs", "contracts/axelar-gateway/src/auth.rs", "contracts/axelar-gateway/src/event.rs",
      "contracts/axelar-gateway/src/executable.rs", "contracts/axelar-gateway/src/types.rs"]


def c02_writers(repo):
    return _frame(repo, "C02.writers", GW, r"MessageApproval\b|DataKey::MessageApproval", ["approve_messages", "validate_message"], "DataKey::MessageApproval")


def c03_writers(repo):
    return _frame(repo, "C03.writers", GW, r"DataKey::(Epoch|SignersHashByEpoch|EpochBySignersHash|LastRotationTimestamp)\b",
                  ["initialize_auth", "rotate_signers", "update_rotation_timestamp"], "Epoch / lookup tables / rotation clock")


def c17_writers(repo):
    # every direct storage write in the operators contract is a write to the operator set (the owner / migration keys are written through axelar-soroban-std)
    return _frame(repo, "C17.writers", ["contracts/axelar-operators/src/contract.rs"], r".", ["add_operator", "remove_operator"], "DataKey::Operators")


def c10_strict_flag(repo):
    """every alloy decode call site passes the literal `true` (strict validation) — the precondition under
    which the assumed contract A-ALLOY (canonical encodings only) applies"""
    path = os.path.join(repo, "contracts/interchain-token-service/src/abi.rs")
    if not os.path.exists(path):
        return {"obligations": [{"id": "C10.strict_flag", "status": "undecided", "detail": "abi.rs missing"}]}
    src = _strip_comments(_strip_tests(open(path).read()))
    calls = re.findall(r"::abi_decode(?:_params|_sequence)?\s*\(([^;]*?)\)\s*\n?\s*\.map_err", src, re.S)
    calls2 = re.findall(r"::abi_decode(?:_params|_sequence)?\s*\(\s*([^()]*(?:\([^()]*\))?[^()]*)\)", src)
    sites = calls2
    if len(sites) < 5:
        return {"obligations": [{"id": "C10.strict_flag", "status": "undecided", "detail": f"lost anchor: only {len(sites)} decode call sites found"}]}
    bad = [c.strip() for c in sites if not re.search(r",\s*true\s*$", c.strip())]
    if bad:
        return {"obligations": [{"id": "C10.strict_flag", "status": "failed", "detail": f"decode call sites without strict validation: {bad}"}]}
    return {"obligations": [{"id": "C10.strict_flag", "status": "discharged", "detail": f"{len(sites)} decode call sites, all with validate=true"}]}


_LOC_CACHE = {}


def locate(repo, name):
    """best-effort (path, first line, last line) of a function named like `auth::rotate_signers` / `AxelarGateway::approve_messages`"""
    key = (repo, name)
    if key in _LOC_CACHE:
        return _LOC_CACHE[key]
    base = re.split(r"[\s(/]", name.strip())[0]
    fn = base.split("::")[-1]
    hint = base.split("::")[0].lower() if "::" in base else ""
    best = None
    roots = [os.path.join(repo, "contracts"), os.path.join(repo, "packages")]
    if "derived" in name or base.startswith("axelar_soroban_std") or base.startswith("std::"):
        roots = [os.path.join(repo, "packages", "axelar-soroban-std")]
    for root in roots:
        for dp, dn, fns in os.walk(root):
            if "/src" not in dp + "/" or "/target" in dp or "testdata" in dp:
                continue
            for f in fns:
                if not f.endswith(".rs"):
                    continue
                path = os.path.join(dp, f)
                src = open(path, errors="replace").read()
                cut = src.find("#[cfg(test)]")
                body = src if cut < 0 else src[:cut]
                m = None
                j = p = -1
                for mm in re.finditer(r"\bfn\s+" + re.escape(fn) + r"\s*(?:<[^>{;]*>)?\s*\(", body):
                    jj = body.find("{", mm.end())
                    kk = body.find(";", mm.end())
                    if jj < 0 or (0 <= kk < jj):
                        continue
                    m, j = mm, jj
                    break
                if not m:
                    continue
                depth, p = 0, j
                while p < len(body):
                    if body[p] == "{":
                        depth += 1
                    elif body[p] == "}":
                        depth -= 1
                        if depth == 0:
                            break
                    p += 1
                rel = os.path.relpath(path, repo)
                cand = (rel, body.count("\n", 0, m.start()) + 1, body.count("\n", 0, p) + 1)
                score = 0
                h = hint.replace("axelar", "").replace("interchaintokenservice", "interchain-token-service").replace("interchaintoken", "interchain-token")
                if hint and (hint in rel.lower().replace("-", "").replace("_", "") or (h and h in rel.lower())):
                    score += 2
                if f in ("contract.rs", "auth.rs", "abi.rs", "token_handler.rs", "executable.rs", "upgradable.rs", "ownable.rs", "operatable.rs", "token.rs"):
                    score += 1
                if f == "contract.rs" and base[:1].isupper() and not base.startswith("AxelarExecutable"):
                    score += 2
                if f == "executable.rs" and base.startswith("AxelarExecutable"):
                    score += 3
                if best is None or score > best[0]:
                    best = (score, cand)
    _LOC_CACHE[key] = best[1] if best else None
    return _LOC_CACHE[key]


# ------------------------------------------------------------------------------------------------
# exported-entry-point reachability: which *exported* contract functions can reach a given sink?
# In Soroban every fn of a `#[contractimpl] impl Trait for X` block and every `pub fn` of a
# `#[contractimpl] impl X` block is an entry point anyone can invoke.
# ------------------------------------------------------------------------------------------------
def _impl_blocks(src):
    """yield (is_contractimpl, is_trait_impl, body_text) for each impl block"""
    for m in re.finditer(r"((?:#\[[^\]]*\]\s*)*)impl(?:<[^>]*>)?\s+([^{;]+?)\{", src):
        attrs, head = m.group(1), m.group(2)
        j = m.end() - 1
        depth, p = 0, j
        while p < len(src):
            if src[p] == "{":
                depth += 1
            elif src[p] == "}":
                depth -= 1
                if depth == 0:
                    break
            p += 1
        yield ("contractimpl" in attrs), (" for " in " " + head + " "), src[j:p + 1]


def exported_reaching(repo, rel_files, sink_pattern):
    """names of exported entry points from which a call matching sink_pattern is reachable (call graph by
    simple name within the given files), plus the set of all exported names"""
    fns = {}       # name -> body
    exported = set()
    for rel in rel_files:
        path = os.path.join(repo, rel)
        if not os.path.exists(path):
            return None, None
        src = _strip_comments(_strip_tests(open(path).read()))
        for name, body in _functions(src):
            fns.setdefault(name, "")
            fns[name] += body
        for is_ci, is_trait, body in _impl_blocks(src):
            if not is_ci:
                continue
            for m in re.finditer(r"(pub\s+)?(?:const\s+)?fn\s+([A-Za-z_0-9]+)\s*(?:<[^>{;]*>)?\s*\(", body):
                if is_trait or m.group(1):
                    exported.add(m.group(2))
    pats = sink_pattern if isinstance(sink_pattern, (list, tuple)) else [sink_pattern]
    direct = {n for n, b in fns.items() if all(re.search(pt, b) for pt in pats)}
    reach = set(direct)
    changed = True
    while changed:
        changed = False
        for n, b in fns.items():
            if n in reach:
                continue
            if any(re.search(r"(?<![A-Za-z_0-9])" + re.escape(c) + r"\s*(?:::<[^>]*>)?\s*\(", b) for c in reach):
                reach.add(n)
                changed = True
    return exported & reach, exported


def _sink_frame(repo, oid, files, sink_pattern, allowed, what):
    reach, exported = exported_reaching(repo, files, sink_pattern)
    if reach is None:
        return {"obligations": [{"id": oid, "status": "undecided", "detail": "source file missing"}]}
    extra = sorted(reach - set(allowed))
    if extra:
        return {"obligations": [{"id": oid, "status": "failed", "detail": f"{what}: also reachable from the exported entry point(s) {extra}, which no contract covers (allowed: {sorted(allowed)})"}]}
    if not reach:
        return {"obligations": [{"id": oid, "status": "undecided", "detail": f"lost anchor: no exported entry point reaches {what}"}]}
    return {"obligations": [{"id": oid, "status": "discharged", "detail": f"{what} is reachable only from {sorted(reach)} (of {len(exported)} exported entry points)"}]}


GWC = ["contracts/axelar-gateway/src/contract.rs", "contracts/axelar-gateway/src/auth.rs", "contracts/axelar-gateway/src/event.rs"]


def c13_announcers(repo):
    return _sink_frame(repo, "C13.announcers", GWC, r"contract_called", ["call_contract"], "the contract_called announcement")


def c02_exported_writers(repo):
    return _sink_frame(repo, "C02.exported_writers", GWC, r"\.(set|remove|update)\s*\(\s*&?\s*DataKey::MessageApproval", ["approve_messages", "validate_message"], "a write to a message approval record")


def c03_exported_writers(repo):
    return _sink_frame(repo, "C03.exported_writers", GWC, r"\.(set|remove|update)\s*\(\s*&?\s*DataKey::(Epoch|SignersHashByEpoch|EpochBySignersHash|LastRotationTimestamp)\b",
                       ["__constructor", "rotate_signers"], "a write to the epoch / signer lookups / rotation clock")


def c14_fund_movers(repo):
    return _sink_frame(repo, "C14.fund_movers", ["contracts/axelar-gas-service/src/contract.rs"], r"\.(try_)?(transfer|transfer_from|burn|burn_from|mint)\s*\(",
                       ["pay_gas", "add_gas", "collect_fees", "refund"], "a token movement by the gas service")


def c12_balance_writers(repo):
    # a function that names a balance key and performs a storage write (reads are not sinks)
    return _sink_frame(repo, "C12.balance_writers", ["contracts/interchain-token/src/contract.rs"], [r"DataKey::Balance\(", r"\.(set|update|remove)\s*\("],
                       ["transfer", "transfer_from", "burn", "burn_from", "mint", "mint_from"], "a write to a balance entry")


def c12_allowance_writers(repo):
    return _sink_frame(repo, "C12.allowance_writers", ["contracts/interchain-token/src/contract.rs"], r"fn\s+write_allowance|\.temporary\(\)\s*\.set\s*\(",
                       ["approve", "transfer_from", "burn_from"], "a write to an allowance entry")


ITSF = ["contracts/interchain-token-service/src/contract.rs", "contracts/interchain-token-service/src/token_handler.rs"]


def c05_token_movers(repo):
    return _sink_frame(repo, "C05.token_movers", ITSF, r"\.(try_)?(transfer|transfer_from|burn|burn_from|mint|mint_from)\s*\(",
                       ["interchain_transfer", "execute", "deploy_interchain_token"], "a token movement (mint / burn / transfer) by the service")


def c11_registry_writers(repo):
    return _sink_frame(repo, "C11.registry_writers", ITSF, r"\.(set|remove|update)\s*\(\s*&?\s*DataKey::TokenIdConfigKey",
                       ["deploy_interchain_token", "register_canonical_token", "execute"], "a write to the token registry")


def c17_forwarders(repo):
    return _sink_frame(repo, "C17.forwarders", ["contracts/axelar-operators/src/contract.rs"], r"(try_)?invoke_contract", ["execute"], "a forwarded call")


def c06_role_writers(repo):
    """who can (re)assign a role: only constructors and the role's own transfer entry point"""
    obs = []
    for rel, allowed in [
        ("contracts/axelar-gateway/src/contract.rs", ["__constructor"]),
        ("contracts/axelar-gas-service/src/contract.rs", ["__constructor"]),
        ("contracts/axelar-operators/src/contract.rs", ["__constructor"]),
        ("contracts/interchain-token-service/src/contract.rs", ["__constructor"]),
        ("contracts/interchain-token/src/contract.rs", ["__constructor", "set_admin", "transfer_ownership"]),
    ]:
        r = _sink_frame(repo, "C06.role_writers[" + rel.split("/")[1] + "]", [rel],
                        r"set_owner\s*\(|set_operator\s*\(|transfer_ownership\s*::|transfer_operatorship\s*::|DataKey::GasCollector\s*,", allowed, "an assignment of a role")
        o = r["obligations"][0]
        if o["status"] == "undecided" and "no exported entry point" in o.get("detail", ""):
            o["status"] = "discharged"
        obs.append(o)
    return {"obligations": obs}
