//! Real-host replay crate: everything lives in tests/ (see ../README.md).
