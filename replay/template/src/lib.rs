//! Real-host replay crate: everything lives in tests/ (see ../README.md).
//!
//! With cargo feature `codec` (test binary 3, `tests/codec.rs`, driver `../codec.py`) this lib additionally
//! compiles the repository's interchain-token-service ABI codec **unmodified, straight from the repository
//! files** as its own modules.  `abi.rs` refers to `crate::abi::alloc`, `crate::error::ContractError` and
//! `crate::types::{..}`, so the three modules must sit at this crate's root under exactly these names.
//! `abi` is a private module in the repository; the test reaches its public methods through `codec_api`.

#[cfg(feature = "codec")]
#[path = "@REPO@/contracts/interchain-token-service/src/abi.rs"]
mod abi;
#[cfg(feature = "codec")]
#[path = "@REPO@/contracts/interchain-token-service/src/error.rs"]
pub mod error;
#[cfg(feature = "codec")]
#[path = "@REPO@/contracts/interchain-token-service/src/types.rs"]
pub mod types;

/// The four public codec entry points of the repository's `abi.rs`, nothing else.
/// (Its private helpers `to_i128`, `get_message_type`, `to_std_string`, `from_vec`, ... are reached only
/// through these; they have their own obligations elsewhere.)
#[cfg(feature = "codec")]
pub mod codec_api {
    pub use crate::error::ContractError;
    pub use crate::types::{DeployInterchainToken, HubMessage, InterchainTransfer, Message};
    use soroban_sdk::{Bytes, Env};

    pub fn hub_encode(env: &Env, m: HubMessage) -> Result<Bytes, ContractError> {
        m.abi_encode(env)
    }
    pub fn hub_decode(env: &Env, payload: &Bytes) -> Result<HubMessage, ContractError> {
        HubMessage::abi_decode(env, payload)
    }
    pub fn message_encode(env: &Env, m: Message) -> Result<Bytes, ContractError> {
        m.abi_encode(env)
    }
    pub fn message_decode(env: &Env, payload: &Bytes) -> Result<Message, ContractError> {
        Message::abi_decode(env, payload)
    }
}
