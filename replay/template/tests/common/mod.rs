//! Helpers shared by `scenarios.rs` and `conformance.rs`.
#![allow(dead_code)]

use soroban_sdk::xdr::{ContractEvent, ContractEventBody, ContractEventType, ContractEventV0, ScAddress, ScVal};
use soroban_sdk::{Address, Env, Symbol, TryFromVal, TryIntoVal, Val, Vec};

pub type Event = (Address, Vec<Val>, Val);

/// Contract events recorded by the host, split into
/// * `live`: events of invocations that succeeded (what a ledger would record), in emission order;
/// * `rolled_back`: events the host flagged `failed_call` because the frame that emitted them (or an
///   enclosing frame) failed.
///
/// NOTE: `soroban_sdk::testutils::Events::all()` of SDK 22.0.2 drops the `failed_call` flag and returns
/// BOTH kinds, so it must not be used to decide whether an event was rolled back.
pub fn host_events(env: &Env) -> (std::vec::Vec<Event>, std::vec::Vec<Event>) {
    let mut live = std::vec::Vec::new();
    let mut rolled_back = std::vec::Vec::new();
    for e in env.host().get_events().expect("get_events").0 {
        if let ContractEvent {
            type_: ContractEventType::Contract,
            contract_id: Some(contract_id),
            body: ContractEventBody::V0(ContractEventV0 { topics, data }),
            ..
        } = e.event
        {
            let addr = Address::try_from_val(env, &ScVal::Address(ScAddress::Contract(contract_id))).expect("contract address");
            let topics: Vec<Val> = topics.try_into_val(env).expect("topics");
            let data: Val = data.try_into_val(env).expect("data");
            if e.failed_call {
                rolled_back.push((addr, topics, data));
            } else {
                live.push((addr, topics, data));
            }
        }
    }
    (live, rolled_back)
}

pub fn live_events(env: &Env) -> std::vec::Vec<Event> {
    host_events(env).0
}

/// Live events of `contract`.
pub fn live_events_of(env: &Env, contract: &Address) -> std::vec::Vec<(Vec<Val>, Val)> {
    live_events(env)
        .into_iter()
        .filter(|(c, _, _)| c == contract)
        .map(|(_, t, d)| (t, d))
        .collect()
}

/// Live events of `contract` whose first topic is the symbol `name`.
pub fn live_events_named(env: &Env, contract: &Address, name: &str) -> std::vec::Vec<(Vec<Val>, Val)> {
    let want = Symbol::new(env, name);
    live_events_of(env, contract)
        .into_iter()
        .filter(|(topics, _)| {
            topics
                .get(0)
                .and_then(|t| Symbol::try_from_val(env, &t).ok())
                .map_or(false, |t| t == want)
        })
        .collect()
}
