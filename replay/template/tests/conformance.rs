//! Shim conformance test: what the abstract Soroban host model (/verif/kani/shim, DESIGN.md §2.2, §5) ASSUMES,
//! checked on the REAL `soroban-sdk` testutils host.
//!
//! One `#[test]` per assumed behaviour; a test asserts the behaviour, so a FAILING test means that the model's
//! axiom is wrong for the real host.  The `// AXIOM <test fn> | <axiom id> | <statement>` comments are the
//! registry that `conformance.py` reads; the name must equal the test function's name.
//!
//! The micro-contract `Probe` below is the only contract code of this file; (g), (k) and (l) additionally use the
//! repository's prebuilt interchain_token.wasm, its gateway types and its native `InterchainToken`.
#![allow(clippy::too_many_arguments)]

mod common;
use common::{host_events, live_events, live_events_of};

use soroban_sdk::testutils::{Address as _, Ledger as _, MockAuth, MockAuthInvoke};
use soroban_sdk::xdr::{FromXdr, ToXdr};
use soroban_sdk::{
    contract, contracterror, contractimpl, contracttype, panic_with_error, vec, Address, Bytes, BytesN, Env, IntoVal,
    String, Symbol, Val, Vec,
};
use soroban_token_sdk::metadata::TokenMetadata;

const INTERCHAIN_TOKEN_WASM: &[u8] =
    include_bytes!("@REPO@/contracts/interchain-token-service/tests/testdata/interchain_token.wasm");

// ------------------------------------------------------------------------------------------------
// The probe contract
// ------------------------------------------------------------------------------------------------
#[contracttype]
#[derive(Clone, Debug, PartialEq, Eq)]
pub enum KeyA {
    Flag,
    Other,
    Slot(u32),
}

/// `Flag` is at position 1 here (position 0 in `KeyA`); `Pad` is at position 0 (where `KeyA::Flag` is).
#[contracttype]
#[derive(Clone, Debug, PartialEq, Eq)]
pub enum KeyB {
    Pad,
    Flag,
    Slot(u32),
}

#[contracterror]
#[derive(Copy, Clone, Debug, PartialEq, Eq)]
#[repr(u32)]
pub enum PErr {
    Boom = 7,
}

#[contract]
pub struct Probe;

/// writes slot `k` in all three storage kinds and publishes one event
fn effects(env: &Env, k: u32, v: u32) {
    env.storage().instance().set(&KeyA::Slot(k), &v);
    env.storage().persistent().set(&KeyA::Slot(k), &v);
    env.storage().temporary().set(&KeyA::Slot(k), &v);
    env.events().publish((Symbol::new(env, "probe"), k), v);
}

#[contractimpl]
impl Probe {
    pub fn effects_ok(env: Env, k: u32, v: u32) {
        effects(&env, k, v);
    }
    pub fn effects_then_auth(env: Env, who: Address, k: u32, v: u32) {
        effects(&env, k, v);
        who.require_auth();
    }
    pub fn effects_then_err(env: Env, k: u32, v: u32) -> Result<(), PErr> {
        effects(&env, k, v);
        Err(PErr::Boom)
    }
    pub fn effects_then_panic(env: Env, k: u32, v: u32) {
        effects(&env, k, v);
        panic!("probe panic");
    }
    pub fn effects_then_panic_with_error(env: Env, k: u32, v: u32) {
        effects(&env, k, v);
        panic_with_error!(&env, PErr::Boom);
    }
    /// plain (non-`try_`) cross-contract call of a failing function
    pub fn effects_then_call_failing(env: Env, callee: Address, k: u32, v: u32) {
        effects(&env, k, v);
        ProbeClient::new(&env, &callee).effects_then_err(&k, &v);
    }
    /// `try_` cross-contract call of a failing function; returns whether the callee failed
    pub fn effects_then_try_call_failing(env: Env, callee: Address, k: u32, v: u32) -> bool {
        effects(&env, k, v);
        ProbeClient::new(&env, &callee).try_effects_then_err(&k, &v).is_err()
    }
    /// calls `callee.effects_then_auth(who = <this contract>)`
    pub fn call_auth_as_self(env: Env, callee: Address, k: u32, v: u32) {
        ProbeClient::new(&env, &callee).effects_then_auth(&env.current_contract_address(), &k, &v);
    }
    /// calls `callee.effects_then_auth(who)` for a third-party `who`
    pub fn call_auth_as(env: Env, callee: Address, who: Address, k: u32, v: u32) {
        ProbeClient::new(&env, &callee).effects_then_auth(&who, &k, &v);
    }
    pub fn add(_env: Env, a: i128, b: i128) -> i128 {
        a + b
    }
    pub fn sub(_env: Env, a: i128, b: i128) -> i128 {
        a - b
    }
    pub fn effects_then_verify(env: Env, k: u32, v: u32, pk: BytesN<32>, msg: Bytes, sig: BytesN<64>) {
        effects(&env, k, v);
        env.crypto().ed25519_verify(&pk, &msg, &sig);
    }
    /// `Some(v)` if `from_xdr` returns `Ok(v)`, `None` if it returns `Err`; the invocation fails if `from_xdr` traps
    pub fn decode_address(env: Env, b: Bytes) -> Option<Address> {
        Address::from_xdr(&env, &b).ok()
    }
    pub fn predicted(env: Env, salt: BytesN<32>) -> Address {
        env.deployer()
            .with_address(env.current_contract_address(), salt)
            .deployed_address()
    }
    pub fn deploy(env: Env, wasm_hash: BytesN<32>, salt: BytesN<32>, owner: Address, token_id: BytesN<32>) -> Address {
        let md = TokenMetadata {
            decimal: 7,
            name: String::from_str(&env, "Probe"),
            symbol: String::from_str(&env, "PRB"),
        };
        env.deployer()
            .with_address(env.current_contract_address(), salt)
            .deploy_v2(wasm_hash, (owner, None::<Address>, token_id, md))
    }
    pub fn emit_sequence(env: Env, a: Address, s: String, h: BytesN<32>, b: Bytes) {
        env.events()
            .publish((Symbol::new(&env, "first"), a.clone(), s.clone()), 1u32);
        env.events()
            .publish((Symbol::new(&env, "second"), h.clone(), b.clone()), (i128::MIN, s.clone()));
        env.events().publish(
            (Symbol::new(&env, "third"), a.to_val(), s.to_val(), h.to_val(), b.to_val()),
            (),
        );
        env.events().publish((Symbol::new(&env, "third"), a, s, h, b), ());
    }
}

// ------------------------------------------------------------------------------------------------
// helpers
// ------------------------------------------------------------------------------------------------
fn probe(env: &Env) -> (Address, ProbeClient<'_>) {
    let id = env.register(Probe, ());
    (id.clone(), ProbeClient::new(env, &id))
}

/// slot `k` of contract `id` in [instance, persistent, temporary]
fn slots(env: &Env, id: &Address, k: u32) -> [Option<u32>; 3] {
    env.as_contract(id, || {
        [
            env.storage().instance().get(&KeyA::Slot(k)),
            env.storage().persistent().get(&KeyA::Slot(k)),
            env.storage().temporary().get(&KeyA::Slot(k)),
        ]
    })
}

fn same_val(env: &Env, a: Val, b: Val) -> bool {
    vec![env, a] == vec![env, b]
}

/// Asserts that a failed invocation left no trace: slot `k` untouched in all kinds, no new live event, and that
/// the host flagged `expect_rolled_back` more events as belonging to a failed call.
struct Trace {
    live: usize,
    rolled_back: usize,
}
fn trace(env: &Env) -> Trace {
    let (l, r) = host_events(env);
    Trace { live: l.len(), rolled_back: r.len() }
}
fn assert_no_effects(env: &Env, ids: &[&Address], k: u32, before: &Trace, expect_rolled_back: usize) {
    for id in ids {
        assert_eq!(slots(env, id, k), [None, None, None], "storage writes of a failed invocation survived");
    }
    let after = trace(env);
    assert_eq!(after.live, before.live, "events of a failed invocation survived");
    assert_eq!(
        after.rolled_back - before.rolled_back,
        expect_rolled_back,
        "host did not flag the failed invocation's events as failed_call"
    );
}

// ================================================================================================
// (a) storage
// ================================================================================================
macro_rules! storage_semantics {
    ($env:expr, $st:expr) => {{
        let k = KeyA::Slot(1);
        // absent
        assert_eq!($st.get::<_, u32>(&k), None);
        assert!(!$st.has(&k));
        // remove of an absent key is a no-op
        $st.remove(&k);
        assert!(!$st.has(&k));
        // set / get / has
        $st.set(&k, &10u32);
        assert_eq!($st.get::<_, u32>(&k), Some(10));
        assert!($st.has(&k));
        // overwrite
        $st.set(&k, &11u32);
        assert_eq!($st.get::<_, u32>(&k), Some(11));
        // update sees the current value, stores and returns the new one
        let r = $st.update(&k, |old: Option<u32>| {
            assert_eq!(old, Some(11));
            old.unwrap() + 1
        });
        assert_eq!(r, 12);
        assert_eq!($st.get::<_, u32>(&k), Some(12));
        // remove
        $st.remove(&k);
        assert_eq!($st.get::<_, u32>(&k), None);
        assert!(!$st.has(&k));
        // update on an absent key sees None and creates the entry
        let r = $st.update(&k, |old: Option<u32>| {
            assert_eq!(old, None);
            5
        });
        assert_eq!(r, 5);
        assert_eq!($st.get::<_, u32>(&k), Some(5));
        assert!($st.has(&k));
        // a unit value is a present entry (the token's minter set stores `()`)
        let u = KeyA::Other;
        $st.set(&u, &());
        assert!($st.has(&u));
        assert_eq!($st.get::<_, ()>(&u), Some(()));
        // full-range i128 / u128 / u64 values are stored exactly
        for x in [i128::MIN, -1, 0, 1, i128::MAX] {
            $st.set(&KeyA::Slot(2), &x);
            assert_eq!($st.get::<_, i128>(&KeyA::Slot(2)), Some(x));
        }
        $st.set(&KeyA::Slot(3), &u128::MAX);
        assert_eq!($st.get::<_, u128>(&KeyA::Slot(3)), Some(u128::MAX));
        $st.set(&KeyA::Slot(4), &u64::MAX);
        assert_eq!($st.get::<_, u64>(&KeyA::Slot(4)), Some(u64::MAX));
    }};
}

// AXIOM storage_semantics_instance | A-STORAGE | instance storage: get/has/set/remove/update behave as a finite map
#[test]
fn storage_semantics_instance() {
    let env = Env::default();
    let (id, _) = probe(&env);
    env.as_contract(&id, || storage_semantics!(env, env.storage().instance()));
}

// AXIOM storage_semantics_persistent | A-STORAGE | persistent storage: get/has/set/remove/update behave as a finite map
#[test]
fn storage_semantics_persistent() {
    let env = Env::default();
    let (id, _) = probe(&env);
    env.as_contract(&id, || storage_semantics!(env, env.storage().persistent()));
}

// AXIOM storage_semantics_temporary | A-STORAGE | temporary storage: get/has/set/remove/update behave as a finite map
#[test]
fn storage_semantics_temporary() {
    let env = Env::default();
    let (id, _) = probe(&env);
    env.as_contract(&id, || storage_semantics!(env, env.storage().temporary()));
}

// AXIOM storage_persists_across_invocations | A-STORAGE | what a successful invocation wrote is what the next invocation reads
#[test]
fn storage_persists_across_invocations() {
    let env = Env::default();
    let (id, c) = probe(&env);
    c.effects_ok(&1, &10);
    c.effects_ok(&2, &20);
    assert_eq!(slots(&env, &id, 1), [Some(10); 3]);
    assert_eq!(slots(&env, &id, 2), [Some(20); 3]);
    c.effects_ok(&1, &11);
    assert_eq!(slots(&env, &id, 1), [Some(11); 3]);
    assert_eq!(slots(&env, &id, 2), [Some(20); 3]);
}

// AXIOM storage_frame_other_keys_untouched | A-FRAME | set/remove/update of one key changes no other key (present or absent) of the same kind
#[test]
fn storage_frame_other_keys_untouched() {
    let env = Env::default();
    let (id, _) = probe(&env);
    env.as_contract(&id, || {
        macro_rules! frame {
            ($st:expr) => {{
                let (k1, k2, k3) = (KeyA::Slot(1), KeyA::Slot(2), KeyA::Slot(3));
                $st.set(&k2, &200u32);
                // k3 stays absent, k2 stays 200 whatever happens to k1
                $st.set(&k1, &1u32);
                assert_eq!(($st.get::<_, u32>(&k2), $st.has(&k3)), (Some(200), false));
                $st.update(&k1, |_: Option<u32>| 2u32);
                assert_eq!(($st.get::<_, u32>(&k2), $st.has(&k3)), (Some(200), false));
                $st.remove(&k1);
                assert_eq!(($st.get::<_, u32>(&k2), $st.has(&k3)), (Some(200), false));
                // keys differing only in the payload / only in the variant are different keys
                $st.set(&KeyA::Flag, &7u32);
                assert!(!$st.has(&KeyA::Other));
                assert!(!$st.has(&KeyA::Slot(0)));
                assert_eq!($st.get::<_, u32>(&k2), Some(200));
            }};
        }
        frame!(env.storage().instance());
        frame!(env.storage().persistent());
        frame!(env.storage().temporary());
    });
}

// AXIOM storage_kinds_are_separate_namespaces | A-FRAME | instance, persistent and temporary storage are disjoint namespaces for the same key
#[test]
fn storage_kinds_are_separate_namespaces() {
    let env = Env::default();
    let (id, _) = probe(&env);
    env.as_contract(&id, || {
        let k = KeyA::Slot(9);
        let s = env.storage();
        s.instance().set(&k, &1u32);
        assert_eq!((s.persistent().has(&k), s.temporary().has(&k)), (false, false));
        s.persistent().set(&k, &2u32);
        assert_eq!(s.instance().get::<_, u32>(&k), Some(1));
        assert!(!s.temporary().has(&k));
        s.temporary().set(&k, &3u32);
        assert_eq!(
            (
                s.instance().get::<_, u32>(&k),
                s.persistent().get::<_, u32>(&k),
                s.temporary().get::<_, u32>(&k)
            ),
            (Some(1), Some(2), Some(3))
        );
        s.persistent().remove(&k);
        assert_eq!(
            (s.instance().get::<_, u32>(&k), s.persistent().has(&k), s.temporary().get::<_, u32>(&k)),
            (Some(1), false, Some(3))
        );
        s.instance().remove(&k);
        assert_eq!((s.instance().has(&k), s.temporary().get::<_, u32>(&k)), (false, Some(3)));
    });
}

// AXIOM storage_is_per_contract | A-FRAME | a contract's writes are invisible in every other contract's storage
#[test]
fn storage_is_per_contract() {
    let env = Env::default();
    let (id1, c1) = probe(&env);
    let (id2, _c2) = probe(&env);
    c1.effects_ok(&1, &10);
    assert_eq!(slots(&env, &id1, 1), [Some(10); 3]);
    assert_eq!(slots(&env, &id2, 1), [None; 3]);
}

// ================================================================================================
// (b) auth
// ================================================================================================
// AXIOM auth_missing_fails_and_rolls_back | A-AUTH,A-ROLLBACK | require_auth of an address that did not authorise fails the invocation; its earlier writes and events are rolled back
#[test]
fn auth_missing_fails_and_rolls_back() {
    let env = Env::default();
    let (id, c) = probe(&env);
    let who = Address::generate(&env);
    let before = trace(&env);
    let r = c.try_effects_then_auth(&who, &1, &10);
    assert!(r.is_err(), "require_auth without authorisation did not fail: {r:?}");
    assert_no_effects(&env, &[&id], 1, &before, 1);
    // the same call with the authorisation succeeds and its effects are visible
    env.mock_all_auths();
    c.effects_then_auth(&who, &1, &10);
    assert_eq!(slots(&env, &id, 1), [Some(10); 3]);
    assert_eq!(trace(&env).live, before.live + 1);
}

// AXIOM auth_is_bound_to_exact_invocation | A-AUTH | an authorisation covers exactly (contract, function, arguments); one for a different call does not satisfy require_auth
#[test]
fn auth_is_bound_to_exact_invocation() {
    let env = Env::default();
    let (id, c) = probe(&env);
    let (id2, _) = probe(&env);
    let who = Address::generate(&env);
    let other = Address::generate(&env);
    let attempt = |signer: &Address, contract: &Address, fn_name: &str, args: Vec<Val>| {
        c.mock_auths(&[MockAuth {
            address: signer,
            invoke: &MockAuthInvoke {
                contract,
                fn_name,
                args,
                sub_invokes: &[],
            },
        }])
        .try_effects_then_auth(&who, &1, &10)
        .is_ok()
    };
    let exact: Vec<Val> = (who.clone(), 1u32, 10u32).into_val(&env);
    // different argument value
    assert!(!attempt(&who, &id, "effects_then_auth", (who.clone(), 1u32, 11u32).into_val(&env)));
    // different function
    assert!(!attempt(&who, &id, "effects_ok", exact.clone()));
    // different contract
    assert!(!attempt(&who, &id2, "effects_then_auth", exact.clone()));
    // somebody else signed the exact call
    assert!(!attempt(&other, &id, "effects_then_auth", exact.clone()));
    assert_eq!(slots(&env, &id, 1), [None; 3]);
    // the exact call, signed by `who`
    assert!(attempt(&who, &id, "effects_then_auth", exact));
    assert_eq!(slots(&env, &id, 1), [Some(10); 3]);
}

// AXIOM auth_direct_invoker_is_implicitly_authorised | A-AUTH | require_auth(A) succeeds without any signature iff contract A is the direct caller; a third party's address does not
#[test]
fn auth_direct_invoker_is_implicitly_authorised() {
    let env = Env::default();
    let (id1, c1) = probe(&env);
    let (id2, _) = probe(&env);
    // id1 calls id2.effects_then_auth(who = id1): no mock, no signature
    let r = c1.try_call_auth_as_self(&id2, &3, &30);
    assert!(r.is_ok(), "direct invoker was not implicitly authorised: {r:?}");
    assert_eq!(slots(&env, &id2, 3), [Some(30); 3]);
    // id1 calls id2.effects_then_auth(who = third party): fails
    let third = Address::generate(&env);
    let r = c1.try_call_auth_as(&id2, &third, &4, &40);
    assert!(r.is_err());
    assert_eq!(slots(&env, &id2, 4), [None; 3]);
    // not transitive: id1 -> id2 -> require_auth(id1) is fine, but a top-level call naming id1 is not
    let (_, c2) = (id2.clone(), ProbeClient::new(&env, &id2));
    let r = c2.try_effects_then_auth(&id1, &5, &50);
    assert!(r.is_err());
    assert_eq!(slots(&env, &id2, 5), [None; 3]);
}

// ================================================================================================
// (c), (d) rollback
// ================================================================================================
// AXIOM err_return_rolls_back | A-ROLLBACK | a contract function returning Err has its writes (all storage kinds) and events rolled back
#[test]
fn err_return_rolls_back() {
    let env = Env::default();
    let (id, c) = probe(&env);
    let before = trace(&env);
    let r = c.try_effects_then_err(&1, &10);
    assert_eq!(r, Err(Ok(PErr::Boom)));
    assert_no_effects(&env, &[&id], 1, &before, 1);
    // and pre-existing state is restored, not cleared
    c.effects_ok(&2, &20);
    let before = trace(&env);
    assert!(c.try_effects_then_err(&2, &21).is_err());
    assert_eq!(slots(&env, &id, 2), [Some(20); 3]);
    assert_eq!(trace(&env).live, before.live);
}

// AXIOM panic_rolls_back | A-ROLLBACK | a panicking contract function has its writes and events rolled back
#[test]
fn panic_rolls_back() {
    let env = Env::default();
    let (id, c) = probe(&env);
    let before = trace(&env);
    let r = c.try_effects_then_panic(&1, &10);
    assert!(r.is_err());
    assert_no_effects(&env, &[&id], 1, &before, 1);
}

// AXIOM panic_with_error_rolls_back | A-ROLLBACK | panic_with_error! fails the invocation with that error; writes and events are rolled back
#[test]
fn panic_with_error_rolls_back() {
    let env = Env::default();
    let (id, c) = probe(&env);
    let before = trace(&env);
    let r = c.try_effects_then_panic_with_error(&1, &10);
    assert_eq!(r, Err(Ok(soroban_sdk::Error::from_contract_error(PErr::Boom as u32))));
    assert_no_effects(&env, &[&id], 1, &before, 1);
}

// ================================================================================================
// (e) cross-contract calls
// ================================================================================================
// AXIOM failing_subcall_fails_caller | A-CALL | a failing callee invoked through the plain client makes the caller fail; both contracts' effects are rolled back
#[test]
fn failing_subcall_fails_caller() {
    let env = Env::default();
    let (id1, c1) = probe(&env);
    let (id2, _) = probe(&env);
    let before = trace(&env);
    let r = c1.try_effects_then_call_failing(&id2, &4, &40);
    assert!(r.is_err(), "caller survived a failing plain sub-call: {r:?}");
    assert_no_effects(&env, &[&id1, &id2], 4, &before, 2);
}

// AXIOM try_subcall_contains_failure | A-CALL | with try_ the caller survives: the callee's effects are rolled back, the caller's are kept
#[test]
fn try_subcall_contains_failure() {
    let env = Env::default();
    let (id1, c1) = probe(&env);
    let (id2, _) = probe(&env);
    let before = trace(&env);
    let r = c1.try_effects_then_try_call_failing(&id2, &5, &50);
    assert_eq!(r, Ok(Ok(true)));
    assert_eq!(slots(&env, &id1, 5), [Some(50); 3], "caller's writes lost");
    assert_eq!(slots(&env, &id2, 5), [None; 3], "failed callee's writes survived");
    let after = trace(&env);
    assert_eq!(after.live, before.live + 1);
    assert_eq!(after.rolled_back, before.rolled_back + 1);
    assert_eq!(live_events_of(&env, &id1).len(), 1);
    assert_eq!(live_events_of(&env, &id2).len(), 0);
}

// ================================================================================================
// (f) events
// ================================================================================================
// AXIOM events_in_order_exact | A-EVENTS | events are recorded in publication order with exactly the published contract, topics and data
#[test]
fn events_in_order_exact() {
    let env = Env::default();
    let (id, c) = probe(&env);
    let a = Address::generate(&env);
    let s = String::from_str(&env, "some-string");
    let h = BytesN::<32>::from_array(&env, &[0xAB; 32]);
    let b = Bytes::from_array(&env, &[1, 2, 3, 4, 5]);
    assert_eq!(live_events(&env).len(), 0);
    c.emit_sequence(&a, &s, &h, &b);
    c.effects_ok(&1, &10);
    let ev = live_events(&env);
    assert_eq!(ev.len(), 5);
    assert!(ev.iter().all(|(contract, _, _)| *contract == id));
    let topics0: Vec<Val> = (Symbol::new(&env, "first"), a.clone(), s.clone()).into_val(&env);
    let topics1: Vec<Val> = (Symbol::new(&env, "second"), h.clone(), b.clone()).into_val(&env);
    let topics3: Vec<Val> = (Symbol::new(&env, "third"), a.clone(), s.clone(), h.clone(), b.clone()).into_val(&env);
    let topics4: Vec<Val> = (Symbol::new(&env, "probe"), 1u32).into_val(&env);
    assert_eq!(ev[0].1, topics0);
    assert!(same_val(&env, ev[0].2, 1u32.into_val(&env)));
    assert_eq!(ev[1].1, topics1);
    assert!(same_val(&env, ev[1].2, (i128::MIN, s.clone()).into_val(&env)));
    assert_eq!(ev[2].1, topics3);
    assert_eq!(ev[3].1, topics3);
    assert!(same_val(&env, ev[3].2, ().into_val(&env)));
    assert_eq!(ev[4].1, topics4);
    assert!(same_val(&env, ev[4].2, 10u32.into_val(&env)));
    // topics that differ in one component are different
    assert_ne!(ev[0].1, topics1);
    let other: Vec<Val> = (Symbol::new(&env, "first"), a.clone(), String::from_str(&env, "some-strinG")).into_val(&env);
    assert_ne!(ev[0].1, other);
}

// AXIOM to_val_in_topics_is_identity | A-EVENTS | `x.to_val()` inside a topics tuple yields the same topic as `x` (Address, String, BytesN<32>, Bytes)
#[test]
fn to_val_in_topics_is_identity() {
    let env = Env::default();
    let (id, c) = probe(&env);
    let a = Address::generate(&env);
    let s = String::from_str(&env, "chain-name");
    let h = BytesN::<32>::from_array(&env, &[0x11; 32]);
    let b = Bytes::from_array(&env, &[9, 8, 7]);
    c.emit_sequence(&a, &s, &h, &b);
    let ev = live_events_of(&env, &id);
    assert_eq!(ev.len(), 4);
    // event 2 was published with to_val() components, event 3 with the typed values
    assert_eq!(ev[2].0, ev[3].0);
    assert!(same_val(&env, ev[2].1, ev[3].1));
    let typed: Vec<Val> = (Symbol::new(&env, "third"), a, s, h, b).into_val(&env);
    assert_eq!(ev[2].0, typed);
}

// ================================================================================================
// (g) deployment
// ================================================================================================
// AXIOM deploy_address_deterministic_and_collision_fails | A-DEPLOY | deploy_v2 address = f(deployer, salt), injective on samples, independent of wasm/args; the constructor runs; redeploying to the occupied address fails
#[test]
fn deploy_address_deterministic_and_collision_fails() {
    let env = Env::default();
    let (id1, c1) = probe(&env);
    let (id2, c2) = probe(&env);
    let wasm_hash = env.deployer().upload_contract_wasm(INTERCHAIN_TOKEN_WASM);
    let salts: [BytesN<32>; 3] = [
        BytesN::from_array(&env, &[0; 32]),
        BytesN::from_array(&env, &[1; 32]),
        BytesN::from_array(&env, &{
            let mut x = [0u8; 32];
            x[31] = 1;
            x
        }),
    ];
    // deterministic and injective in (deployer, salt) on the samples
    let mut predicted = std::vec::Vec::new();
    for c in [&c1, &c2] {
        for salt in &salts {
            let p = c.predicted(salt);
            assert_eq!(p, c.predicted(salt));
            predicted.push(p);
        }
    }
    for i in 0..predicted.len() {
        for j in 0..i {
            assert_ne!(predicted[i], predicted[j], "address collision between (deployer, salt) pairs {i} and {j}");
        }
    }
    // deploy: returns the predicted address, the constructor ran with the given arguments
    let owner = Address::generate(&env);
    let token_id = BytesN::<32>::from_array(&env, &[5; 32]);
    let deployed = c1.deploy(&wasm_hash, &salts[1], &owner, &token_id);
    assert_eq!(deployed, predicted[1]);
    assert_eq!(c1.predicted(&salts[1]), deployed, "prediction changed after deployment");
    let token = interchain_token::InterchainTokenClient::new(&env, &deployed);
    assert_eq!(token.owner(), owner);
    assert_eq!(token.token_id(), token_id);
    assert_eq!(token.decimals(), 7);
    assert!(token.is_minter(&owner));
    // same (deployer, salt) again: fails, whatever the arguments; the existing contract is untouched
    let other_owner = Address::generate(&env);
    let r = c1.try_deploy(&wasm_hash, &salts[1], &other_owner, &BytesN::from_array(&env, &[6; 32]));
    assert!(r.is_err(), "deploying to an occupied address succeeded: {r:?}");
    assert_eq!(token.owner(), owner);
    assert_eq!(token.token_id(), token_id);
    // same salt from another deployer, other salt from the same deployer: fine, at the predicted addresses
    assert_eq!(c2.deploy(&wasm_hash, &salts[1], &other_owner, &token_id), predicted[4]);
    assert_eq!(c1.deploy(&wasm_hash, &salts[2], &other_owner, &token_id), predicted[2]);
    let _ = (id1, id2);
}

// ================================================================================================
// (h) contracttype enum keys
// ================================================================================================
// AXIOM enum_keys_distinguished_by_variant_name | A-KEY-ENC | #[contracttype] enum keys are identified by VARIANT NAME (+payload), not by enum name or variant position
#[test]
fn enum_keys_distinguished_by_variant_name() {
    let env = Env::default();
    let (id, _) = probe(&env);
    env.as_contract(&id, || {
        macro_rules! check {
            ($st:expr) => {{
                assert!(!$st.has(&KeyA::Flag) && !$st.has(&KeyB::Flag) && !$st.has(&KeyB::Pad));
                $st.set(&KeyA::Flag, &1u32);
                // same variant name in another enum, at another position: SAME key
                assert!($st.has(&KeyB::Flag));
                assert_eq!($st.get::<_, u32>(&KeyB::Flag), Some(1));
                // same position (0) in another enum, different name: different key
                assert!(!$st.has(&KeyB::Pad));
                // position 1 of KeyA is `Other`, position 1 of KeyB is `Flag`
                assert!(!$st.has(&KeyA::Other));
                // tuple variants: name + payload
                $st.set(&KeyB::Slot(7), &2u32);
                assert_eq!($st.get::<_, u32>(&KeyA::Slot(7)), Some(2));
                assert!(!$st.has(&KeyA::Slot(8)));
                // removing through the other enum removes the shared entry
                $st.remove(&KeyB::Flag);
                assert!(!$st.has(&KeyA::Flag));
            }};
        }
        check!(env.storage().instance());
        check!(env.storage().persistent());
        check!(env.storage().temporary());
    });
    // the serialised forms agree with that
    assert_eq!(KeyA::Flag.to_xdr(&env), KeyB::Flag.to_xdr(&env));
    assert_ne!(KeyA::Flag.to_xdr(&env), KeyB::Pad.to_xdr(&env));
    assert_eq!(KeyA::Slot(7).to_xdr(&env), KeyB::Slot(7).to_xdr(&env));
}

// ================================================================================================
// (i) XDR
// ================================================================================================
fn assert_all_distinct(label: &str, xs: &[Bytes]) {
    for i in 0..xs.len() {
        for j in 0..i {
            assert_ne!(xs[i], xs[j], "{label}: samples {j} and {i} have the same XDR");
        }
    }
}

// AXIOM xdr_injective_samples | A-XDR-INJ | to_xdr is deterministic and gives different bytes for different values of one type, incl. tuples/structs differing in one component (sample based)
#[test]
fn xdr_injective_samples() {
    use axelar_gateway::types::{CommandType, Message, WeightedSigner, WeightedSigners};
    let env = Env::default();
    let e = &env;
    let st = |x: &str| String::from_str(e, x);

    assert_all_distinct("u32", &[0u32, 1, 2, 256, u32::MAX].map(|x| x.to_xdr(e)));
    assert_all_distinct("u64", &[0u64, 1, 1 << 32, u64::MAX].map(|x| x.to_xdr(e)));
    assert_all_distinct("i128", &[0i128, 1, -1, 1 << 64, i128::MAX, i128::MIN].map(|x| x.to_xdr(e)));
    assert_all_distinct("u128", &[0u128, 1, 1 << 64, u128::MAX].map(|x| x.to_xdr(e)));
    assert_all_distinct("String", &["", "a", "b", "ab", "ba", "a\0", "abcd", "abcde"].map(|x| st(x).to_xdr(e)));
    assert_all_distinct(
        "Bytes",
        &[&[][..], &[0], &[0, 0], &[1], &[0, 1], &[1, 0], &[0, 0, 0, 0], &[0, 0, 0, 0, 0]].map(|x| Bytes::from_slice(e, x).to_xdr(e)),
    );
    let mut one_bit = [0u8; 32];
    one_bit[17] = 0x08;
    assert_all_distinct(
        "BytesN<32>",
        &[[0u8; 32], [1u8; 32], one_bit].map(|x| BytesN::<32>::from_array(e, &x).to_xdr(e)),
    );
    let (a1, a2, a3) = (Address::generate(e), Address::generate(e), Address::generate(e));
    assert_all_distinct("Address", &[a1.clone(), a2.clone(), a3.clone()].map(|x| x.to_xdr(e)));
    // determinism
    assert_eq!(a1.clone().to_xdr(e), a1.clone().to_xdr(e));
    assert_eq!(st("ab").to_xdr(e), st("ab").to_xdr(e));

    // tuples: moving a byte across the component boundary, or changing one component, changes the XDR
    assert_all_distinct(
        "(String, String)",
        &[("ab", "c"), ("a", "bc"), ("abc", ""), ("", "abc"), ("ab", "d"), ("bb", "c")].map(|(x, y)| (st(x), st(y)).to_xdr(e)),
    );
    let (h1, h2) = (BytesN::<32>::from_array(e, &[1; 32]), BytesN::<32>::from_array(e, &[2; 32]));
    assert_all_distinct(
        "(Address, BytesN<32>)",
        &[
            (a1.clone(), h1.clone()).to_xdr(e),
            (a2.clone(), h1.clone()).to_xdr(e),
            (a1.clone(), h2.clone()).to_xdr(e),
            (a2.clone(), h2.clone()).to_xdr(e),
        ],
    );
    assert_all_distinct("(u32, u64)", &[(1u32, 2u64), (2, 1), (1, 1), (2, 2)].map(|x| x.to_xdr(e)));
    assert_all_distinct(
        "(String, Address, BytesN<32>) prefixed",
        &[
            (st("p"), a1.clone(), h1.clone()).to_xdr(e),
            (st("q"), a1.clone(), h1.clone()).to_xdr(e),
            (st("p"), a2.clone(), h1.clone()).to_xdr(e),
            (st("p"), a1.clone(), h2.clone()).to_xdr(e),
        ],
    );

    // the gateway's digest inputs: a Message differing in exactly one field, and the command-type prefix
    let base = Message {
        source_chain: st("chain"),
        message_id: st("id"),
        source_address: st("src"),
        contract_address: a1.clone(),
        payload_hash: h1.clone(),
    };
    let variants = [
        base.clone(),
        Message { source_chain: st("chaim"), ..base.clone() },
        Message { message_id: st("ie"), ..base.clone() },
        Message { source_address: st("srd"), ..base.clone() },
        Message { contract_address: a2.clone(), ..base.clone() },
        Message { payload_hash: h2.clone(), ..base.clone() },
        // a byte moved between neighbouring string fields
        Message { source_chain: st("chaini"), message_id: st("d"), ..base.clone() },
    ];
    assert_all_distinct("Message", &variants.clone().map(|m| m.to_xdr(e)));
    assert_all_distinct(
        "(CommandType, Vec<Message>)",
        &[
            (CommandType::ApproveMessages, vec![e, base.clone()]).to_xdr(e),
            (CommandType::RotateSigners, vec![e, base.clone()]).to_xdr(e),
            (CommandType::ApproveMessages, vec![e, base.clone(), base.clone()]).to_xdr(e),
            (CommandType::ApproveMessages, vec![e, variants[1].clone()]).to_xdr(e),
            (CommandType::ApproveMessages, Vec::<Message>::new(e)).to_xdr(e),
        ],
    );
    let ws = |w1: u128, w2: u128, th: u128, nonce: u8| WeightedSigners {
        signers: vec![
            e,
            WeightedSigner { signer: h1.clone(), weight: w1 },
            WeightedSigner { signer: h2.clone(), weight: w2 },
        ],
        threshold: th,
        nonce: BytesN::from_array(e, &[nonce; 32]),
    };
    assert_all_distinct(
        "WeightedSigners",
        &[ws(1, 2, 3, 0), ws(2, 1, 3, 0), ws(1, 2, 2, 0), ws(1, 2, 3, 1), ws(1, 3, 3, 0)].map(|x| x.to_xdr(e)),
    );
}

// AXIOM xdr_address_roundtrip | A-XDR-INJ | Address::from_xdr(to_xdr(a)) == a; from_xdr is a partial inverse: Ok(v) only if to_xdr(v) == bytes; anything else is refused (Err or trap)
#[test]
fn xdr_address_roundtrip() {
    use axelar_soroban_std::address::AddressExt;
    let env = Env::default();
    env.budget().reset_unlimited();
    let (id, c) = probe(&env);
    // from_xdr inside a contract invocation: Ok(Some(v)) = decoded, Ok(None) = returned Err, Err(_) = trapped
    #[derive(PartialEq, Debug)]
    enum Out {
        Decoded(Address),
        ReturnedErr,
        Trapped,
    }
    let decode = |b: &Bytes| match c.try_decode_address(b) {
        Ok(Ok(Some(v))) => Out::Decoded(v),
        Ok(Ok(None)) => Out::ReturnedErr,
        _ => Out::Trapped,
    };
    let samples = [Address::generate(&env), id.clone(), Address::zero(&env)];
    let (mut decoded, mut returned_err, mut trapped) = (0, 0, 0);
    for a in samples.iter() {
        let x = a.clone().to_xdr(&env);
        assert_eq!(Address::from_xdr(&env, &x), Ok(a.clone()));
        assert_eq!(decode(&x), Out::Decoded(a.clone()));
        // partial inverse: flip each bit of each byte; either it is refused, or what it decodes to is a different
        // address that re-encodes to exactly these bytes
        for i in 0..x.len() {
            for bit in 0..8 {
                let mut y = x.clone();
                y.set(i, y.get(i).unwrap() ^ (1 << bit));
                match decode(&y) {
                    Out::Decoded(v) => {
                        decoded += 1;
                        assert_ne!(v, *a, "two different byte strings decode to the same address");
                        assert_eq!(v.to_xdr(&env), y, "from_xdr accepted a non-canonical encoding");
                    }
                    Out::ReturnedErr => returned_err += 1,
                    Out::Trapped => trapped += 1,
                }
            }
        }
        // truncated / extended inputs are refused
        assert!(!matches!(decode(&x.slice(0..x.len() - 1)), Out::Decoded(_)));
        let mut longer = x.clone();
        longer.push_back(0);
        assert!(!matches!(decode(&longer), Out::Decoded(_)));
    }
    println!(
        "CONFORMANCE-NOTE xdr_address_roundtrip: single-bit mutants of Address XDR: {decoded} decode (to a different address, canonically), {returned_err} make from_xdr return Err, {trapped} make from_xdr TRAP the invocation"
    );
    // well-formed XDR of another type: from_xdr returns Err; malformed bytes: from_xdr TRAPS (does not return Err)
    let wrong_type = decode(&String::from_str(&env, "hello").to_xdr(&env));
    let empty = decode(&Bytes::new(&env));
    let garbage = decode(&Bytes::from_array(&env, &[0xFF; 11]));
    println!(
        "CONFORMANCE-NOTE xdr_address_roundtrip: from_xdr::<Address>(xdr of a String) = {wrong_type:?}; (empty bytes) = {empty:?}; (0xFF x 11) = {garbage:?}"
    );
    assert_eq!(wrong_type, Out::ReturnedErr);
    assert!(!matches!(empty, Out::Decoded(_)));
    assert!(!matches!(garbage, Out::Decoded(_)));
}

// ================================================================================================
// (j) keccak
// ================================================================================================
// AXIOM keccak256_is_keccak256 | A-KECCAK | env.crypto().keccak256 equals an independent Keccak-256 (tiny-keccak) and the known test vectors
#[test]
fn keccak256_is_keccak256() {
    use tiny_keccak::{Hasher, Keccak};
    fn hex(x: &[u8]) -> std::string::String {
        x.iter().map(|b| format!("{b:02x}")).collect()
    }
    let env = Env::default();
    let host = |data: &[u8]| env.crypto().keccak256(&Bytes::from_slice(&env, data)).to_array();
    let reference = |data: &[u8]| {
        let mut h = Keccak::v256();
        h.update(data);
        let mut out = [0u8; 32];
        h.finalize(&mut out);
        out
    };
    // known vectors (Keccak-256, NOT SHA3-256)
    assert_eq!(hex(&host(b"")), "c5d2460186f7233c927e7db2dcc703c0e500b653ca82273b7bfad8045d85a470");
    assert_eq!(hex(&host(b"abc")), "4e03657aea45a94fc7d47ba826c8d667c0d1e6e33a64a036ec44f58fa12d6c45");
    // SHA3-256("") would be a7ffc6f8...; make sure the host is not that
    assert_ne!(hex(&host(b"")), "a7ffc6f8bf1ed76651c14756a061d662f580ff4de43b49fa82d80a4b80f8434a");
    // lengths around the sponge rate (136) and some larger ones
    let data: std::vec::Vec<u8> = (0..1000u32).map(|i| (i.wrapping_mul(2654435761) >> 13) as u8).collect();
    for len in [0usize, 1, 31, 32, 33, 64, 135, 136, 137, 271, 272, 273, 500, 1000] {
        assert_eq!(host(&data[..len]), reference(&data[..len]), "keccak256 differs at length {len}");
    }
    // the BytesN<32> conversion used everywhere in the contracts keeps the bytes
    let b: BytesN<32> = env.crypto().keccak256(&Bytes::from_slice(&env, b"abc")).into();
    assert_eq!(b.to_array(), reference(b"abc"));
}

// ================================================================================================
// (k) ed25519
// ================================================================================================
// AXIOM ed25519_wrong_signature_fails | A-ED25519 | ed25519_verify returns normally for a valid signature and fails the invocation (effects rolled back) for a wrong signature / message / key
#[test]
fn ed25519_wrong_signature_fails() {
    use ed25519_dalek::{Signer, SigningKey};
    let env = Env::default();
    env.budget().reset_unlimited();
    let (id, c) = probe(&env);
    let sk = SigningKey::from_bytes(&[42u8; 32]);
    let sk2 = SigningKey::from_bytes(&[43u8; 32]);
    let digest = env.crypto().keccak256(&Bytes::from_slice(&env, b"message to sign")).to_array();
    let msg = Bytes::from_array(&env, &digest);
    let pk = BytesN::<32>::from_array(&env, &sk.verifying_key().to_bytes());
    let pk2 = BytesN::<32>::from_array(&env, &sk2.verifying_key().to_bytes());
    let sig_bytes = sk.sign(&digest).to_bytes();
    let sig = BytesN::<64>::from_array(&env, &sig_bytes);

    // valid
    c.effects_then_verify(&1, &10, &pk, &msg, &sig);
    assert_eq!(slots(&env, &id, 1), [Some(10); 3]);

    // every single-bit corruption of the signature is rejected (sampled: one bit per byte)
    for i in 0..64 {
        let mut bad = sig_bytes;
        bad[i] ^= 1 << (i % 8);
        let before = trace(&env);
        let r = c.try_effects_then_verify(&2, &20, &pk, &msg, &BytesN::from_array(&env, &bad));
        assert!(r.is_err(), "corrupted signature (byte {i}) accepted");
        assert_no_effects(&env, &[&id], 2, &before, 1);
    }
    // wrong message
    let other_msg = Bytes::from_array(&env, &[0u8; 32]);
    assert!(c.try_effects_then_verify(&2, &20, &pk, &other_msg, &sig).is_err());
    // wrong key
    assert!(c.try_effects_then_verify(&2, &20, &pk2, &msg, &sig).is_err());
    // somebody else's valid signature on the same message does not verify under pk
    let sig2 = BytesN::<64>::from_array(&env, &sk2.sign(&digest).to_bytes());
    assert!(c.try_effects_then_verify(&2, &20, &pk, &msg, &sig2).is_err());
    assert!(c.try_effects_then_verify(&2, &20, &pk2, &msg, &sig2).is_ok());
    // all-zero signature
    assert!(c.try_effects_then_verify(&3, &30, &pk, &msg, &BytesN::from_array(&env, &[0u8; 64])).is_err());
    assert_eq!(slots(&env, &id, 3), [None; 3]);
}

// ================================================================================================
// (l) arithmetic
// ================================================================================================
// AXIOM overflow_traps | A-OVERFLOW | i128 overflow in contract code (this build profile) fails the invocation; the repository's token balance addition included
#[test]
fn overflow_traps() {
    // is this build compiled with overflow checks?  (observed, not assumed)
    let checks_on = std::panic::catch_unwind(|| std::hint::black_box(i32::MAX) + std::hint::black_box(1)).is_err();
    println!("CONFORMANCE-NOTE overflow_traps: overflow-checks in this test build: {}", if checks_on { "ON" } else { "OFF" });

    let env = Env::default();
    let (_, c) = probe(&env);
    assert_eq!(c.add(&1, &2), 3);
    assert_eq!(c.add(&(i128::MAX - 1), &1), i128::MAX);
    assert_eq!(c.sub(&(i128::MIN + 1), &1), i128::MIN);
    assert!(c.try_add(&i128::MAX, &1).is_err(), "i128::MAX + 1 did not trap");
    assert!(c.try_add(&i128::MIN, &-1).is_err());
    assert!(c.try_sub(&i128::MIN, &1).is_err(), "i128::MIN - 1 did not trap");
    assert!(c.try_sub(&0, &i128::MIN).is_err());

    // the repository's own `balance + amount` (interchain-token, compiled natively with this profile)
    let owner = Address::generate(&env);
    let md = TokenMetadata {
        decimal: 6,
        name: String::from_str(&env, "n"),
        symbol: String::from_str(&env, "s"),
    };
    let tid = env.register(
        interchain_token::InterchainToken,
        (owner.clone(), None::<Address>, BytesN::<32>::from_array(&env, &[1; 32]), md),
    );
    let token = interchain_token::InterchainTokenClient::new(&env, &tid);
    let holder = Address::generate(&env);
    env.mock_all_auths();
    token.mint_from(&owner, &holder, &i128::MAX);
    assert_eq!(token.balance(&holder), i128::MAX);
    let r = token.try_mint_from(&owner, &holder, &1);
    assert!(r.is_err(), "balance overflow did not trap: {r:?}");
    assert_eq!(token.balance(&holder), i128::MAX);
    assert!(checks_on, "overflow-checks are OFF in this build although the arithmetic trapped?");
}

// ================================================================================================
// A-TTL: a DOCUMENTED DEVIATION, not an axiom of the real host
// ================================================================================================
// AXIOM ttl_real_host_expires_temporary_entries | A-TTL(deviation) | the model has no archival; the REAL host drops a temporary entry after its TTL (reads as absent) - the model's "entries never vanish" is an over-approximation, see README
#[test]
fn ttl_real_host_expires_temporary_entries() {
    let env = Env::default();
    let (id, c) = probe(&env);
    c.effects_ok(&1, &10);
    let (ttl_tmp, ttl_pers) = env.as_contract(&id, || {
        use soroban_sdk::testutils::storage::{Persistent as _, Temporary as _};
        (
            env.storage().temporary().get_ttl(&KeyA::Slot(1)),
            env.storage().persistent().get_ttl(&KeyA::Slot(1)),
        )
    });
    println!("CONFORMANCE-NOTE ttl_real_host_expires_temporary_entries: default TTL of a fresh temporary entry = {ttl_tmp} ledgers, persistent = {ttl_pers} ledgers");
    // still there one ledger before expiry ...
    let seq = env.ledger().sequence();
    env.ledger().set_sequence_number(seq + ttl_tmp);
    let tmp_alive = env.as_contract(&id, || env.storage().temporary().get::<_, u32>(&KeyA::Slot(1)));
    assert_eq!(tmp_alive, Some(10));
    // ... and gone after it: reads as absent (no error)
    env.ledger().set_sequence_number(seq + ttl_tmp + 1);
    let tmp_gone = env.as_contract(&id, || {
        (
            env.storage().temporary().has(&KeyA::Slot(1)),
            env.storage().temporary().get::<_, u32>(&KeyA::Slot(1)),
        )
    });
    assert_eq!(tmp_gone, (false, None), "temporary entry survived its TTL");
}
