//! Real-host replay scenarios.
//!
//! Every scenario runs the repository's REAL contract code on the REAL `soroban-sdk` testutils host and
//! looks for one specific property violation.  Protocol with `run_scenario.py`:
//!
//! * the test prints exactly one line `REPLAY-RESULT: violation <observed>` or `REPLAY-RESULT: holds <observed>`
//!   and then PASSES in both cases;
//! * the test FAILS (panics) only if the scenario's own setup or its positive control breaks
//!   (then nothing can be concluded, `run_scenario.py` exits 2).
//!
//! The `// SCENARIO <name> | <obligation id> | <one line>` comments are the registry that
//! `run_scenario.py --list` reads; the name must equal the test function's name.
#![allow(clippy::too_many_arguments)]

mod common;
use common::{live_events, live_events_named};

use axelar_gas_service::AxelarGasService;
use axelar_gateway::testutils::{generate_proof, get_approve_hash, setup_gateway, TestSignerSet};
use axelar_gateway::types::Message as GatewayMessage;
use axelar_gateway::AxelarGatewayClient;
use example::{Example, ExampleClient};
use interchain_token::{InterchainToken, InterchainTokenClient};
use interchain_token_service::types::{HubMessage, InterchainTransfer, Message};
use interchain_token_service::{InterchainTokenService, InterchainTokenServiceClient};
use soroban_sdk::testutils::Address as _;
use soroban_sdk::token::StellarAssetClient;
use soroban_sdk::xdr::ToXdr;
use soroban_sdk::{vec, Address, Bytes, BytesN, Env, IntoVal, String, Symbol, TryFromVal, Val, Vec};
use soroban_token_sdk::metadata::TokenMetadata;

const INTERCHAIN_TOKEN_WASM: &[u8] =
    include_bytes!("@REPO@/contracts/interchain-token-service/tests/testdata/interchain_token.wasm");

const HUB_CHAIN: &str = "axelar";
const HUB_ADDRESS: &str = "its_hub_address";
/// the chain the inbound transfers originate from (inner `source_chain` of ReceiveFromHub); made trusted in `World::new`
const ORIGIN_CHAIN: &str = "ethereum";

fn violation(observed: impl AsRef<str>) {
    println!("\nREPLAY-RESULT: violation {}", observed.as_ref().replace('\n', " "));
}
fn holds(observed: impl AsRef<str>) {
    println!("\nREPLAY-RESULT: holds {}", observed.as_ref().replace('\n', " "));
}

fn s(env: &Env, x: &str) -> String {
    String::from_str(env, x)
}

fn approve(env: &Env, gateway: &AxelarGatewayClient, signers: &TestSignerSet, msg: GatewayMessage) {
    let messages = vec![env, msg];
    let proof = generate_proof(env, get_approve_hash(env, messages.clone()), signers.clone());
    gateway.approve_messages(&messages, &proof);
}

// ------------------------------------------------------------------------------------------------
// SCENARIO c16_example_validates | C16.example_validates | Example.execute of a message the gateway never approved must be refused
// ------------------------------------------------------------------------------------------------
#[test]
fn c16_example_validates() {
    let env = Env::default();
    let (signers, gateway) = setup_gateway(&env, 0, 3);
    let gas_service = Address::generate(&env);
    let app_id = env.register(Example, (&gateway.address, &gas_service));
    let app = ExampleClient::new(&env, &app_id);

    let chain = s(&env, "chain");
    let src = s(&env, "source-address");
    let payload = Bytes::from_array(&env, &[1, 2, 3]);
    let payload_hash: BytesN<32> = env.crypto().keccak256(&payload).into();

    // positive control: an APPROVED message is executed (otherwise the scenario proves nothing)
    let ok_id = s(&env, "approved-id");
    approve(
        &env,
        &gateway,
        &signers,
        GatewayMessage {
            source_chain: chain.clone(),
            message_id: ok_id.clone(),
            source_address: src.clone(),
            contract_address: app_id.clone(),
            payload_hash: payload_hash.clone(),
        },
    );
    let control = app.try_execute(&chain, &ok_id, &src, &payload);
    assert!(matches!(control, Ok(Ok(()))), "control: approved message was not executed: {control:?}");
    assert_eq!(live_events_named(&env, &app_id, "executed").len(), 1, "control: no `executed` event");
    assert!(gateway.is_message_executed(&chain, &ok_id));

    // the probe: same app, a message id the gateway has never seen
    let bad_id = s(&env, "never-approved-id");
    assert!(!gateway.is_message_approved(&chain, &bad_id, &src, &app_id, &payload_hash));
    let r = app.try_execute(&chain, &bad_id, &src, &payload);
    let executed_events = live_events_named(&env, &app_id, "executed").len() - 1;
    let returned_ok = matches!(r, Ok(Ok(())));
    let observed = format!(
        "try_execute(unapproved message) returned {}; `executed` events emitted for it: {}; gateway.is_message_executed = {}",
        if returned_ok { "Ok".to_string() } else { format!("{r:?}") },
        executed_events,
        gateway.is_message_executed(&chain, &bad_id)
    );
    if returned_ok || executed_events > 0 {
        violation(observed);
    } else {
        holds(observed);
    }
}

// ------------------------------------------------------------------------------------------------
// SCENARIO c12_set_admin_event | C12.set_admin_event | the token's `set_admin` event must be topics ("set_admin", previous admin), data new admin
// ------------------------------------------------------------------------------------------------
#[test]
fn c12_set_admin_event() {
    // returns (admin address found in topic 1, address found in data) of the last `set_admin` event
    fn probe(via_set_admin: bool) -> (Address, Address, Option<(Address, Address)>) {
        let env = Env::default();
        let owner = Address::generate(&env);
        let new_owner = Address::generate(&env);
        let md = TokenMetadata {
            decimal: 6,
            name: s(&env, "name"),
            symbol: s(&env, "SYM"),
        };
        let id = env.register(
            InterchainToken,
            (owner.clone(), None::<Address>, BytesN::<32>::from_array(&env, &[1; 32]), md),
        );
        let token = InterchainTokenClient::new(&env, &id);
        assert_eq!(token.owner(), owner, "setup: owner");
        env.mock_all_auths();
        if via_set_admin {
            StellarAssetClient::new(&env, &id).set_admin(&new_owner);
        } else {
            token.transfer_ownership(&new_owner);
        }
        assert_eq!(token.owner(), new_owner, "setup: ownership was not transferred");
        let found = live_events_named(&env, &id, "set_admin").last().map(|(topics, data)| {
            assert_eq!(topics.len(), 2, "set_admin event has {} topics", topics.len());
            (
                Address::try_from_val(&env, &topics.get(1).unwrap()).expect("topic 1 is not an address"),
                Address::try_from_val(&env, data).expect("data is not an address"),
            )
        });
        (owner, new_owner, found)
    }

    let mut bad = std::vec::Vec::new();
    let mut good = std::vec::Vec::new();
    for (label, via) in [("transfer_ownership", false), ("set_admin", true)] {
        match probe(via) {
            (_, _, None) => bad.push(format!("{label}: no `set_admin` event emitted")),
            (owner, new_owner, Some((topic_admin, data_admin))) => {
                let t = if topic_admin == owner {
                    "PREVIOUS owner"
                } else if topic_admin == new_owner {
                    "NEW owner"
                } else {
                    "an unrelated address"
                };
                let d = if data_admin == new_owner {
                    "new owner"
                } else if data_admin == owner {
                    "PREVIOUS owner"
                } else {
                    "an unrelated address"
                };
                let line = format!("{label}: set_admin event topic admin = {t}, data = {d}");
                if topic_admin == owner && data_admin == new_owner {
                    good.push(line)
                } else {
                    bad.push(line)
                }
            }
        }
    }
    if bad.is_empty() {
        holds(good.join("; "));
    } else {
        bad.extend(good);
        violation(bad.join("; "));
    }
}

// ------------------------------------------------------------------------------------------------
// ITS world shared by c04 and c11
// ------------------------------------------------------------------------------------------------
struct World<'a> {
    env: Env,
    signers: TestSignerSet,
    gateway: AxelarGatewayClient<'a>,
    its: InterchainTokenServiceClient<'a>,
    n: u32,
}

impl<'a> World<'a> {
    fn new() -> Self {
        let env = Env::default();
        let (signers, gateway) = setup_gateway(&env, 0, 3);
        let gas_service = env.register(AxelarGasService, (&Address::generate(&env), &Address::generate(&env)));
        let wasm_hash = env.deployer().upload_contract_wasm(INTERCHAIN_TOKEN_WASM);
        let its_id = env.register(
            InterchainTokenService,
            (
                &Address::generate(&env),
                &gateway.address,
                &gas_service,
                s(&env, HUB_ADDRESS),
                s(&env, "chain_name"),
                wasm_hash,
            ),
        );
        let its = InterchainTokenServiceClient::new(&env, &its_id);
        assert_eq!(its.its_hub_address(), s(&env, HUB_ADDRESS));
        assert_eq!(its.its_hub_chain_name(), s(&env, HUB_CHAIN));
        its.mock_all_auths().set_trusted_chain(&s(&env, HUB_CHAIN));
        its.mock_all_auths().set_trusted_chain(&s(&env, ORIGIN_CHAIN));
        assert!(its.is_trusted_chain(&s(&env, ORIGIN_CHAIN)));
        World { env, signers, gateway, its, n: 0 }
    }

    fn deploy_token(&self, salt: u8, initial_supply: i128, minter: &Option<Address>) -> (BytesN<32>, InterchainTokenClient<'a>) {
        let env = &self.env;
        let md = TokenMetadata {
            decimal: 18,
            name: s(env, "Test"),
            symbol: s(env, "TEST"),
        };
        let deployer = Address::generate(env);
        let token_id = self.its.mock_all_auths().deploy_interchain_token(
            &deployer,
            &BytesN::from_array(env, &[salt; 32]),
            &md,
            &initial_supply,
            minter,
        );
        let token = InterchainTokenClient::new(env, &self.its.token_address(&token_id));
        assert_eq!(token.balance(&deployer), initial_supply, "setup: initial supply");
        (token_id, token)
    }

    /// Approve on the gateway, with genuine signatures, a hub message carrying an inbound transfer of
    /// `amount` to `recipient`, claimed to come from `source_address`; then deliver it to ITS.
    /// Returns whether `execute` succeeded.
    fn deliver_transfer(&mut self, token_id: &BytesN<32>, recipient: &Address, amount: i128, source_address: &str) -> Result<(), std::string::String> {
        let env = &self.env;
        self.n += 1;
        let msg = HubMessage::ReceiveFromHub {
            source_chain: s(env, ORIGIN_CHAIN),
            message: Message::InterchainTransfer(InterchainTransfer {
                token_id: token_id.clone(),
                source_address: Address::generate(env).to_xdr(env),
                destination_address: recipient.clone().to_xdr(env),
                amount,
                data: None,
            }),
        };
        let payload = msg.abi_encode(env).expect("abi_encode");
        let payload_hash: BytesN<32> = env.crypto().keccak256(&payload).into();
        let message_id = s(env, &format!("msg-{}", self.n));
        let source_chain = s(env, HUB_CHAIN);
        let source_address = s(env, source_address);
        approve(
            env,
            &self.gateway,
            &self.signers,
            GatewayMessage {
                source_chain: source_chain.clone(),
                message_id: message_id.clone(),
                source_address: source_address.clone(),
                contract_address: self.its.address.clone(),
                payload_hash: payload_hash.clone(),
            },
        );
        assert!(
            self.gateway
                .is_message_approved(&source_chain, &message_id, &source_address, &self.its.address, &payload_hash),
            "setup: the gateway did not approve the message"
        );
        match self.its.try_execute(&source_chain, &message_id, &source_address, &payload) {
            Ok(Ok(())) => Ok(()),
            other => Err(format!("{other:?}")),
        }
    }
}

// ------------------------------------------------------------------------------------------------
// SCENARIO c04_hub_address_checked | C04.hub_address_checked | ITS must refuse an approved hub message whose source address is not the configured hub address
// ------------------------------------------------------------------------------------------------
#[test]
fn c04_hub_address_checked() {
    let mut w = World::new();
    let (token_id, token) = w.deploy_token(1, 0, &None);

    // positive control: the same message shape from the real hub address is executed
    let r0 = Address::generate(&w.env);
    let control = w.deliver_transfer(&token_id, &r0, 5, HUB_ADDRESS);
    assert!(control.is_ok(), "control: delivery from the hub address failed: {control:?}");
    assert_eq!(token.balance(&r0), 5, "control: recipient not credited");

    // the probe
    let recipient = Address::generate(&w.env);
    let r = w.deliver_transfer(&token_id, &recipient, 7, "not-the-hub");
    let balance = token.balance(&recipient);
    let observed = format!(
        "hub address is \"{HUB_ADDRESS}\"; execute(source_chain=\"{HUB_CHAIN}\", source_address=\"not-the-hub\") returned {}; recipient balance = {balance} (transfer amount 7)",
        match &r {
            Ok(()) => "Ok".to_string(),
            Err(e) => e.clone(),
        }
    );
    if r.is_ok() || balance != 0 {
        violation(observed);
    } else {
        holds(observed);
    }
}

// ------------------------------------------------------------------------------------------------
// SCENARIO c11_its_remains_minter | C11.its_remains_minter | a token deployed by ITS (initial supply > 0, minter given) must stay mintable by ITS
// ------------------------------------------------------------------------------------------------
#[test]
fn c11_its_remains_minter() {
    let mut w = World::new();

    // positive control: plain token (no supply, no minter) receives an inbound transfer
    let (plain_id, plain) = w.deploy_token(1, 0, &None);
    assert!(plain.is_minter(&w.its.address), "control: ITS is not minter of a plain token");
    let r0 = Address::generate(&w.env);
    let control = w.deliver_transfer(&plain_id, &r0, 5, HUB_ADDRESS);
    assert!(control.is_ok(), "control: inbound transfer to a plain token failed: {control:?}");
    assert_eq!(plain.balance(&r0), 5);

    // the probe
    let minter = Address::generate(&w.env);
    let (token_id, token) = w.deploy_token(2, 1000, &Some(minter.clone()));
    assert!(token.is_minter(&minter), "setup: the requested minter was not installed");
    let its_is_minter = token.is_minter(&w.its.address);
    let recipient = Address::generate(&w.env);
    let r = w.deliver_transfer(&token_id, &recipient, 7, HUB_ADDRESS);
    let balance = token.balance(&recipient);
    let observed = format!(
        "after deploy_interchain_token(initial_supply=1000, minter=Some(m)): is_minter(ITS) = {its_is_minter}; approved inbound transfer of 7 returned {}; recipient balance = {balance}",
        match &r {
            Ok(()) => "Ok".to_string(),
            Err(e) => e.clone(),
        }
    );
    if !its_is_minter || r.is_err() || balance != 7 {
        violation(observed);
    } else {
        holds(observed);
    }
}

// ------------------------------------------------------------------------------------------------
// SCENARIO c02_consume_once | C02.consume_iff_exact_approval,C02.consumed_marks_executed,C02.one_executed_event | an approved message is consumed exactly once, by its destination
// ------------------------------------------------------------------------------------------------
#[test]
fn c02_consume_once() {
    let env = Env::default();
    let (signers, gateway) = setup_gateway(&env, 0, 3);
    let destination = Address::generate(&env);
    let chain = s(&env, "ethereum");
    let id = s(&env, "0xabc-1");
    let src = s(&env, "0xsender");
    let payload_hash = BytesN::<32>::from_array(&env, &[7; 32]);

    let before = gateway.is_message_approved(&chain, &id, &src, &destination, &payload_hash);
    approve(
        &env,
        &gateway,
        &signers,
        GatewayMessage {
            source_chain: chain.clone(),
            message_id: id.clone(),
            source_address: src.clone(),
            contract_address: destination.clone(),
            payload_hash: payload_hash.clone(),
        },
    );
    let approved = gateway.is_message_approved(&chain, &id, &src, &destination, &payload_hash);
    let executed_before = gateway.is_message_executed(&chain, &id);
    // somebody else cannot consume it
    let other = Address::generate(&env);
    let by_other = gateway
        .mock_all_auths()
        .validate_message(&other, &chain, &id, &src, &payload_hash);
    let still_approved = gateway.is_message_approved(&chain, &id, &src, &destination, &payload_hash);
    let first = gateway
        .mock_all_auths()
        .validate_message(&destination, &chain, &id, &src, &payload_hash);
    let executed_events = live_events_named(&env, &gateway.address, "message_executed").len();
    let second = gateway
        .mock_all_auths()
        .validate_message(&destination, &chain, &id, &src, &payload_hash);
    let executed_events_after = live_events_named(&env, &gateway.address, "message_executed").len();
    let executed = gateway.is_message_executed(&chain, &id);
    let approved_after = gateway.is_message_approved(&chain, &id, &src, &destination, &payload_hash);

    let observed = format!(
        "approved before/after approval = {before}/{approved}; executed before = {executed_before}; validate by a third party = {by_other} (still approved = {still_approved}); \
         first validate = {first}; second validate = {second}; message_executed events = {executed_events} then {executed_events_after}; \
         is_message_executed = {executed}; is_message_approved afterwards = {approved_after}"
    );
    let ok = !before
        && approved
        && !executed_before
        && !by_other
        && still_approved
        && first
        && !second
        && executed_events == 1
        && executed_events_after == 1
        && executed
        && !approved_after;
    if ok {
        holds(observed);
    } else {
        violation(observed);
    }
}

// ------------------------------------------------------------------------------------------------
// SCENARIO c13_call_contract_event | C13.one_exact_announcement | call_contract emits exactly one contract_called event carrying keccak256(payload)
// ------------------------------------------------------------------------------------------------
#[test]
fn c13_call_contract_event() {
    use tiny_keccak::{Hasher, Keccak};

    let env = Env::default();
    let (_signers, gateway) = setup_gateway(&env, 0, 3);
    let caller = Address::generate(&env);
    let chain = s(&env, "ethereum");
    let dest = s(&env, "0x4EFE356BEDeCC817cb89B4E9b796dB8bC188DC59");
    let raw: [u8; 37] = core::array::from_fn(|i| (i as u8).wrapping_mul(7).wrapping_add(3));
    let payload = Bytes::from_array(&env, &raw);

    // independent Keccak-256 of the payload (not the host's)
    let mut h = Keccak::v256();
    h.update(&raw);
    let mut digest = [0u8; 32];
    h.finalize(&mut digest);
    let expected_hash = BytesN::<32>::from_array(&env, &digest);

    let all_before = live_events(&env).len();
    let named_before = live_events_named(&env, &gateway.address, "contract_called").len();
    gateway.mock_all_auths().call_contract(&caller, &chain, &dest, &payload);
    let all_after = live_events(&env).len();
    let named = live_events_named(&env, &gateway.address, "contract_called");

    let new_events = all_after - all_before;
    let new_named = named.len() - named_before;
    let expected_topics: Vec<Val> = (
        Symbol::new(&env, "contract_called"),
        caller.clone(),
        chain.clone(),
        dest.clone(),
        expected_hash.clone(),
    )
        .into_val(&env);
    let (topics_ok, data_ok) = named.last().map_or((false, false), |(t, d)| {
        (
            *t == expected_topics,
            Bytes::try_from_val(&env, d).map_or(false, |b| b == payload),
        )
    });
    let observed = format!(
        "call_contract emitted {new_events} event(s), {new_named} of them `contract_called` by the gateway; \
         topics == (contract_called, caller, destination_chain, destination_address, keccak256(payload)): {topics_ok}; data == payload: {data_ok}"
    );
    if new_events == 1 && new_named == 1 && topics_ok && data_ok {
        holds(observed);
    } else {
        violation(observed);
    }
}
