//! Test binary 3: randomized DIFFERENTIAL test of the interchain-token-service ABI codec
//! (`@REPO@/contracts/interchain-token-service/src/abi.rs`, compiled unmodified into this crate's lib, see
//! `src/lib.rs`), driven by `../codec.py`.
//!
//! This is the *bounded / sampled* stand-in for the part of property C10 the deductive tools could not reach
//! (alloy-sol-types' generic encoder/decoder does not terminate under the model checker).  It proves nothing;
//! it samples.  Bound: byte fields <= 70 bytes, strings <= 40 bytes, CODEC_CASES random messages
//! (default 300) and a few dozen corrupted inputs derived from each.
//!
//! What is compared
//!   (a) `ref_*` below: an encoder written from the Solidity ABI specification ("Formal Specification of the
//!       Encoding": head/tail layout of a tuple, `bytes`/`string` = length word + data right-padded with zeros
//!       to a multiple of 32, `uintN` = big-endian left-padded word, `bytes32` = the 32 bytes).  It uses no
//!       alloy type or function.
//!   (c) for every generated message: real encode == reference encode (byte for byte), and
//!       real decode(real encode) == the message with `Some(empty)` read back as `None`;
//!   (d) for inputs derived from a valid encoding by a corruption, and for random byte strings:
//!       decode must not panic, and if it returns `Ok(m)` then real encode(m) must be exactly the input.
//!
//! Output protocol (parsed by codec.py):
//!   CODEC-BEGIN cases=<n> seed=<seed>
//!   CODEC-VIOLATION <check> seed=<seed> case=<i>: <description / hex of the input>
//!   CODEC-STATS <check> inputs=<n> rejected=<n> accepted_canonical=<n>
//!   CODEC-VIOLATION-COUNT <check> <n>             (all violations, also those beyond the first 60 printed)
//!   CODEC-EXCLUDED <pattern> skipped=<n>          (only with CODEC_EXCLUDE)
//!   CODEC-SUMMARY valid=<n> reference_matches=<n> roundtrips=<n> corrupted_inputs=<n> accepted_noncanonical=<n> panics=<n>
//! The test fails iff at least one CODEC-VIOLATION line was produced.
//!
//! Environment: CODEC_CASES (default 300), VERIF_SEED (default 0), CODEC_ONLY_CASE=<i> (debugging: only case i),
//! CODEC_EXCLUDE=<substr>[,<substr>..] (inputs of the checks whose name contains a substring are not run).

use std::collections::BTreeMap;
use std::panic::{catch_unwind, AssertUnwindSafe};
use std::sync::atomic::{AtomicBool, AtomicUsize, Ordering};

use rand::rngs::StdRng;
use rand::{Rng, SeedableRng};
use replay::codec_api as api;
use soroban_sdk::{Bytes, BytesN, Env, String as SorobanString};

// ---------------------------------------------------------------------------------------------
// Host-independent model of a hub message
// ---------------------------------------------------------------------------------------------

#[derive(Clone, Debug, PartialEq, Eq)]
enum MMessage {
    Transfer {
        token_id: [u8; 32],
        source_address: Vec<u8>,
        destination_address: Vec<u8>,
        amount: i128,
        data: Option<Vec<u8>>,
    },
    Deploy {
        token_id: [u8; 32],
        name: String,
        symbol: String,
        decimals: u8,
        minter: Option<Vec<u8>>,
    },
}

#[derive(Clone, Debug, PartialEq, Eq)]
struct MHub {
    /// true = SendToHub { destination_chain }, false = ReceiveFromHub { source_chain }
    send: bool,
    chain: String,
    message: MMessage,
}

fn normalise_opt(o: &Option<Vec<u8>>) -> Option<Vec<u8>> {
    match o {
        Some(v) if v.is_empty() => None,
        other => other.clone(),
    }
}

impl MMessage {
    /// What decoding must return: an empty optional byte field reads back as absent.
    fn normalised(&self) -> MMessage {
        match self {
            MMessage::Transfer { token_id, source_address, destination_address, amount, data } => MMessage::Transfer {
                token_id: *token_id,
                source_address: source_address.clone(),
                destination_address: destination_address.clone(),
                amount: *amount,
                data: normalise_opt(data),
            },
            MMessage::Deploy { token_id, name, symbol, decimals, minter } => MMessage::Deploy {
                token_id: *token_id,
                name: name.clone(),
                symbol: symbol.clone(),
                decimals: *decimals,
                minter: normalise_opt(minter),
            },
        }
    }
    fn tag(&self) -> u8 {
        match self {
            MMessage::Transfer { .. } => 0,
            MMessage::Deploy { .. } => 1,
        }
    }
}

impl MHub {
    fn normalised(&self) -> MHub {
        MHub { send: self.send, chain: self.chain.clone(), message: self.message.normalised() }
    }
    fn tag(&self) -> u8 {
        if self.send {
            3
        } else {
            4
        }
    }
}

// model <-> the repository's types (host objects)

fn sbytes(env: &Env, v: &[u8]) -> Bytes {
    Bytes::from_slice(env, v)
}
fn vbytes(b: &Bytes) -> Vec<u8> {
    let mut v = vec![0u8; b.len() as usize];
    b.copy_into_slice(&mut v);
    v
}
fn sstring(env: &Env, s: &str) -> SorobanString {
    SorobanString::from_str(env, s)
}
/// Soroban strings are byte strings; keep the raw bytes so that nothing is lost in the comparison.
fn vstring(s: &SorobanString) -> Vec<u8> {
    let mut v = vec![0u8; s.len() as usize];
    s.copy_into_slice(&mut v);
    v
}

fn to_real_message(env: &Env, m: &MMessage) -> api::Message {
    match m {
        MMessage::Transfer { token_id, source_address, destination_address, amount, data } => {
            api::Message::InterchainTransfer(api::InterchainTransfer {
                token_id: BytesN::from_array(env, token_id),
                source_address: sbytes(env, source_address),
                destination_address: sbytes(env, destination_address),
                amount: *amount,
                data: data.as_ref().map(|d| sbytes(env, d)),
            })
        }
        MMessage::Deploy { token_id, name, symbol, decimals, minter } => {
            api::Message::DeployInterchainToken(api::DeployInterchainToken {
                token_id: BytesN::from_array(env, token_id),
                name: sstring(env, name),
                symbol: sstring(env, symbol),
                decimals: *decimals,
                minter: minter.as_ref().map(|d| sbytes(env, d)),
            })
        }
    }
}

fn to_real_hub(env: &Env, h: &MHub) -> api::HubMessage {
    let message = to_real_message(env, &h.message);
    if h.send {
        api::HubMessage::SendToHub { destination_chain: sstring(env, &h.chain), message }
    } else {
        api::HubMessage::ReceiveFromHub { source_chain: sstring(env, &h.chain), message }
    }
}

/// Err(description) if a decoded string is not UTF-8 (cannot be represented in the model; a decoder
/// returning such a string would be reported as a round-trip violation).
fn from_real_message(m: &api::Message) -> Result<MMessage, String> {
    let utf8 = |s: &SorobanString| String::from_utf8(vstring(s)).map_err(|e| format!("decoded string is not UTF-8: {e}"));
    Ok(match m {
        api::Message::InterchainTransfer(t) => MMessage::Transfer {
            token_id: t.token_id.to_array(),
            source_address: vbytes(&t.source_address),
            destination_address: vbytes(&t.destination_address),
            amount: t.amount,
            data: t.data.as_ref().map(vbytes),
        },
        api::Message::DeployInterchainToken(d) => MMessage::Deploy {
            token_id: d.token_id.to_array(),
            name: utf8(&d.name)?,
            symbol: utf8(&d.symbol)?,
            decimals: d.decimals,
            minter: d.minter.as_ref().map(vbytes),
        },
    })
}

fn from_real_hub(h: &api::HubMessage) -> Result<MHub, String> {
    Ok(match h {
        api::HubMessage::SendToHub { destination_chain, message } => MHub {
            send: true,
            chain: String::from_utf8(vstring(destination_chain)).map_err(|e| format!("decoded chain is not UTF-8: {e}"))?,
            message: from_real_message(message)?,
        },
        api::HubMessage::ReceiveFromHub { source_chain, message } => MHub {
            send: false,
            chain: String::from_utf8(vstring(source_chain)).map_err(|e| format!("decoded chain is not UTF-8: {e}"))?,
            message: from_real_message(message)?,
        },
    })
}

// ---------------------------------------------------------------------------------------------
// (a) Reference encoder, from the Solidity ABI specification.  No alloy.
//
//   enc((X1..Xk)) = head(X1) .. head(Xk) tail(X1) .. tail(Xk)
//     static Xi : head = enc(Xi), tail = empty
//     dynamic Xi: head = enc(uint256(offset of tail(Xi) from the start of enc)), tail = enc(Xi)
//   enc(uint<M> v)  = v big-endian, left-padded with zeros to 32 bytes
//   enc(bytes32 v)  = v
//   enc(bytes  v)   = enc(uint256(len(v))) ++ v ++ zeros up to a multiple of 32
//   enc(string v)   = enc(bytes(utf8(v)))
// ---------------------------------------------------------------------------------------------

enum Field<'a> {
    Word([u8; 32]),
    Dyn(&'a [u8]),
}

/// Where things are inside a reference encoding (used only to aim the corruptions).
#[derive(Clone, Debug, Default)]
struct Layout {
    /// position of the offset word of each dynamic field
    offset_words: Vec<usize>,
    /// position of the length word of each dynamic field
    length_words: Vec<usize>,
    /// [start, end) of the data bytes of each dynamic field
    data: Vec<(usize, usize)>,
    /// [start, end) of the zero padding after the data of each dynamic field (possibly empty)
    padding: Vec<(usize, usize)>,
}

fn ref_word(v: u128) -> [u8; 32] {
    let mut w = [0u8; 32];
    w[16..].copy_from_slice(&v.to_be_bytes());
    w
}

fn ref_tuple(fields: &[Field]) -> (Vec<u8>, Layout) {
    let head_len = 32 * fields.len();
    let mut head: Vec<u8> = Vec::new();
    let mut tail: Vec<u8> = Vec::new();
    let mut layout = Layout::default();
    for f in fields {
        match f {
            Field::Word(w) => head.extend_from_slice(w),
            Field::Dyn(d) => {
                layout.offset_words.push(head.len());
                let offset = head_len + tail.len();
                head.extend_from_slice(&ref_word(offset as u128));
                layout.length_words.push(offset);
                tail.extend_from_slice(&ref_word(d.len() as u128));
                let start = head_len + tail.len();
                tail.extend_from_slice(d);
                layout.data.push((start, start + d.len()));
                let pad = (32 - d.len() % 32) % 32;
                tail.extend(std::iter::repeat(0u8).take(pad));
                layout.padding.push((start + d.len(), start + d.len() + pad));
            }
        }
    }
    assert_eq!(head.len(), head_len);
    head.extend_from_slice(&tail);
    (head, layout)
}

/// `uint256 amount` (InterchainTransfer) / `uint8 decimals` (DeployInterchainToken): 5th head word
const INNER_WORD4: usize = 128;

fn ref_message(m: &MMessage) -> (Vec<u8>, Layout) {
    match m {
        MMessage::Transfer { token_id, source_address, destination_address, amount, data } => {
            assert!(*amount >= 0, "generator produced an unrepresentable amount");
            let empty: Vec<u8> = Vec::new();
            ref_tuple(&[
                Field::Word(ref_word(0)),
                Field::Word(*token_id),
                Field::Dyn(source_address),
                Field::Dyn(destination_address),
                Field::Word(ref_word(*amount as u128)),
                Field::Dyn(data.as_ref().unwrap_or(&empty)),
            ])
        }
        MMessage::Deploy { token_id, name, symbol, decimals, minter } => {
            let empty: Vec<u8> = Vec::new();
            ref_tuple(&[
                Field::Word(ref_word(1)),
                Field::Word(*token_id),
                Field::Dyn(name.as_bytes()),
                Field::Dyn(symbol.as_bytes()),
                Field::Word(ref_word(*decimals as u128)),
                Field::Dyn(minter.as_ref().unwrap_or(&empty)),
            ])
        }
    }
}

/// SendToHub / ReceiveFromHub around ALREADY ENCODED inner bytes (also used to re-wrap a corrupted inner
/// message in an otherwise canonical outer message).
fn ref_wrap(send: bool, chain: &str, inner: &[u8]) -> (Vec<u8>, Layout) {
    ref_tuple(&[Field::Word(ref_word(if send { 3 } else { 4 })), Field::Dyn(chain.as_bytes()), Field::Dyn(inner)])
}

fn ref_hub(h: &MHub) -> (Vec<u8>, Layout) {
    let (inner, _) = ref_message(&h.message);
    ref_wrap(h.send, &h.chain, &inner)
}

// ---------------------------------------------------------------------------------------------
// (b) Generators
// ---------------------------------------------------------------------------------------------

fn pick_len(rng: &mut StdRng, deliberate: &[usize], max: usize) -> usize {
    if rng.gen_range(0..100) < 40 {
        deliberate[rng.gen_range(0..deliberate.len())]
    } else {
        rng.gen_range(0..=max)
    }
}

const BYTE_LENS: [usize; 8] = [0, 1, 31, 32, 33, 63, 64, 70];
const STR_LENS: [usize; 6] = [0, 1, 31, 32, 33, 40];

fn gen_bytes_of_len(rng: &mut StdRng, len: usize) -> Vec<u8> {
    match rng.gen_range(0..10) {
        0 => vec![0u8; len],    // all zero: indistinguishable from padding
        1 => vec![0xFFu8; len], // all ones
        _ => (0..len).map(|_| rng.gen()).collect(),
    }
}

/// byte field, length 0..=70 — and, for one field in forty, a large one (600..=3000 bytes): behaviour
/// that depends on the total message size (fixed buffers, length limits) must show up too
fn gen_bytes(rng: &mut StdRng) -> Vec<u8> {
    let len = if rng.gen_range(0..40) == 0 { rng.gen_range(600..=3000) } else { pick_len(rng, &BYTE_LENS, 70) };
    gen_bytes_of_len(rng, len)
}

/// None / Some(empty) / Some(non-empty, 1..=70 bytes), one third each
fn gen_opt_bytes(rng: &mut StdRng) -> Option<Vec<u8>> {
    match rng.gen_range(0..3) {
        0 => None,
        1 => Some(Vec::new()),
        _ => {
            let len = pick_len(rng, &BYTE_LENS, 70).max(1);
            Some(gen_bytes_of_len(rng, len))
        }
    }
}

const MULTIBYTE: [char; 18] = [
    '\u{0}', '\t', '\u{7f}', // 1 byte, odd ones
    '\u{80}', 'π', 'é', 'ß', '\u{7ff}', // 2 bytes
    '\u{800}', '中', '€', '\u{fffd}', '\u{ffff}', // 3 bytes
    '\u{10000}', '🎉', '🚀', '🌈', '\u{10ffff}', // 4 bytes
];

/// random valid UTF-8 of EXACTLY the chosen byte length (0..=40), mixing 1/2/3/4-byte characters
fn gen_string(rng: &mut StdRng) -> String {
    let target = pick_len(rng, &STR_LENS, 40);
    let ascii_only = rng.gen_range(0..4) == 0;
    let mut s = String::new();
    while s.len() < target {
        let rem = target - s.len();
        let c = if ascii_only || rng.gen_range(0..2) == 0 {
            rng.gen_range(0x20u8..0x7f) as char
        } else {
            MULTIBYTE[rng.gen_range(0..MULTIBYTE.len())]
        };
        if c.len_utf8() <= rem {
            s.push(c);
        }
    }
    // edge: a trailing / leading NUL byte (NUL-padded asset codes are a classic place to "normalise")
    if target >= 1 && rng.gen_range(0..8) == 0 {
        if s.is_char_boundary(target - 1) {
            s.truncate(target - 1);
            s.push('\u{0}');
        }
    } else if target >= 1 && rng.gen_range(0..16) == 0 && s.is_char_boundary(1) {
        s.replace_range(0..1, "\u{0}");
    }
    assert_eq!(s.len(), target);
    s
}

fn gen_amount(rng: &mut StdRng) -> i128 {
    match rng.gen_range(0..10) {
        0 => 0,
        1 => 1,
        2 => i128::MAX,
        3 => i128::MAX - 1,
        4 => 1i128 << 64,
        5 => (1i128 << 64) - 1,
        6 => rng.gen_range(0..=u64::MAX) as i128,
        _ => (rng.gen::<u128>() >> 1) as i128, // uniform in 0..=i128::MAX
    }
}

fn gen_token_id(rng: &mut StdRng) -> [u8; 32] {
    match rng.gen_range(0..12) {
        0 => [0u8; 32],
        1 => [0xFFu8; 32],
        _ => rng.gen(),
    }
}

fn gen_decimals(rng: &mut StdRng) -> u8 {
    match rng.gen_range(0..6) {
        0 => 0,
        1 => 255,
        2 => 18,
        _ => rng.gen(),
    }
}

/// `case % 4` fixes the wrapper x kind combination so that all four are covered evenly.
fn gen_hub(rng: &mut StdRng, case: usize) -> MHub {
    let send = case % 2 == 0;
    let message = if (case / 2) % 2 == 0 {
        MMessage::Transfer {
            token_id: gen_token_id(rng),
            source_address: gen_bytes(rng),
            destination_address: gen_bytes(rng),
            amount: gen_amount(rng),
            data: gen_opt_bytes(rng),
        }
    } else {
        MMessage::Deploy {
            token_id: gen_token_id(rng),
            name: gen_string(rng),
            symbol: gen_string(rng),
            decimals: gen_decimals(rng),
            minter: gen_opt_bytes(rng),
        }
    };
    MHub { send, chain: gen_string(rng), message }
}

// ---------------------------------------------------------------------------------------------
// Bookkeeping
// ---------------------------------------------------------------------------------------------

fn hex(b: &[u8]) -> String {
    let mut s = String::with_capacity(2 * b.len());
    for x in b {
        s.push_str(&format!("{x:02x}"));
    }
    s
}

#[derive(Default)]
struct CheckStats {
    inputs: usize,
    rejected: usize,
    accepted_canonical: usize,
}

const MAX_PRINTED_VIOLATIONS: usize = 60;

struct Report {
    seed: u64,
    /// CODEC_EXCLUDE: substrings of check names whose inputs are not run (recorded in the output)
    exclude: Vec<String>,
    excluded: BTreeMap<String, usize>,
    violations: usize,
    accepted_noncanonical: usize,
    panics: usize,
    stats: BTreeMap<String, CheckStats>,
    violations_by_check: BTreeMap<String, usize>,
}

impl Report {
    fn violation(&mut self, check: &str, case: usize, detail: &str) {
        self.violations += 1;
        let first_of_its_check = !self.violations_by_check.contains_key(check);
        *self.violations_by_check.entry(check.to_string()).or_default() += 1;
        // always print the first violation of every check (its failing input identifies the cause)
        if self.violations <= MAX_PRINTED_VIOLATIONS || first_of_its_check {
            println!("CODEC-VIOLATION {check} seed={} case={case}: {detail}", self.seed);
        }
    }
}

static IN_PROBE: AtomicBool = AtomicBool::new(false);
static PROBE_PANICS_PRINTED: AtomicUsize = AtomicUsize::new(0);

/// Panics inside the code under test are caught and counted; print the first few only (one line each),
/// everything else (this test's own assertions) goes to the default hook.
fn install_panic_hook() {
    let default = std::panic::take_hook();
    std::panic::set_hook(Box::new(move |info| {
        if IN_PROBE.load(Ordering::SeqCst) {
            if PROBE_PANICS_PRINTED.fetch_add(1, Ordering::SeqCst) < 10 {
                eprintln!("[codec] panic inside the code under test: {info}");
            }
        } else {
            default(info);
        }
    }));
}

fn fresh_env() -> Env {
    // one Env per generated message; no test_snapshots/*.json for any of them
    let env = Env::new_with_config(soroban_sdk::testutils::EnvTestConfig { capture_snapshot_at_drop: false });
    env.budget().reset_unlimited();
    env
}

#[derive(Clone, Copy, PartialEq, Eq, Debug)]
enum Decoder {
    Hub,
    Message,
}

enum Outcome {
    Rejected,
    AcceptedCanonical,
    /// decode returned Ok(m) but encode(m) != input (or encode(m) failed)
    AcceptedNonCanonical(String),
    Panicked(String),
}

fn panic_text(p: Box<dyn std::any::Any + Send>) -> String {
    if let Some(s) = p.downcast_ref::<&str>() {
        s.to_string()
    } else if let Some(s) = p.downcast_ref::<String>() {
        s.clone()
    } else {
        "<non-string panic payload>".to_string()
    }
}

/// (d): decode `input`; must not panic; Ok(m) => encode(m) == input exactly.
fn probe(env: &mut Env, which: Decoder, input: &[u8]) -> Outcome {
    IN_PROBE.store(true, Ordering::SeqCst);
    let r = catch_unwind(AssertUnwindSafe(|| {
        let e: &Env = env;
        let payload = sbytes(e, input);
        let reencoded: Option<Result<Bytes, api::ContractError>> = match which {
            Decoder::Hub => api::hub_decode(e, &payload).ok().map(|m| api::hub_encode(e, m)),
            Decoder::Message => api::message_decode(e, &payload).ok().map(|m| api::message_encode(e, m)),
        };
        match reencoded {
            None => Outcome::Rejected,
            Some(Err(err)) => Outcome::AcceptedNonCanonical(format!("decode returned Ok but re-encoding it fails with {err:?}")),
            Some(Ok(b)) => {
                let out = vbytes(&b);
                if out == input {
                    Outcome::AcceptedCanonical
                } else {
                    Outcome::AcceptedNonCanonical(format!("decode returned Ok but re-encoding gives other bytes ({} bytes: {})", out.len(), hex(&out)))
                }
            }
        }
    }));
    IN_PROBE.store(false, Ordering::SeqCst);
    match r {
        Ok(o) => o,
        Err(p) => {
            // the host may be left with a dangling borrow: continue on a new one
            *env = fresh_env();
            Outcome::Panicked(panic_text(p))
        }
    }
}

fn run_probe(rep: &mut Report, env: &mut Env, case: usize, check: &str, which: Decoder, input: &[u8]) {
    let name = format!("{check}/{}", if which == Decoder::Hub { "hub" } else { "message" });
    if let Some(pat) = rep.exclude.iter().find(|p| name.contains(p.as_str())) {
        *rep.excluded.entry(pat.clone()).or_default() += 1;
        return;
    }
    let outcome = probe(env, which, input);
    let st = rep.stats.entry(name.clone()).or_default();
    st.inputs += 1;
    match outcome {
        Outcome::Rejected => st.rejected += 1,
        Outcome::AcceptedCanonical => st.accepted_canonical += 1,
        Outcome::AcceptedNonCanonical(why) => {
            rep.accepted_noncanonical += 1;
            rep.violation(&format!("accepted_noncanonical:{name}"), case, &format!("{why} -- input {} bytes: {}", input.len(), hex(input)));
        }
        Outcome::Panicked(msg) => {
            rep.panics += 1;
            rep.violation(&format!("panic:{name}"), case, &format!("decode panicked: {msg} -- input {} bytes: {}", input.len(), hex(input)));
        }
    }
}

// ---------------------------------------------------------------------------------------------
// (d) Corruptions.  Each returns the corrupted copies of `valid` (possibly none when not applicable).
// ---------------------------------------------------------------------------------------------

fn read_word_usize(b: &[u8], pos: usize) -> usize {
    // only used on words this file wrote itself (offsets / lengths < 2^16)
    let mut v = 0usize;
    for x in &b[pos + 24..pos + 32] {
        v = (v << 8) | *x as usize;
    }
    v
}

fn write_word(b: &mut [u8], pos: usize, w: [u8; 32]) {
    b[pos..pos + 32].copy_from_slice(&w);
}

fn word_2p255_plus(k: u128) -> [u8; 32] {
    let mut w = ref_word(k);
    w[0] |= 0x80;
    w
}

/// structure-aware corruptions of one tuple encoding `valid` with layout `lay`;
/// `type_tag` = the message type tag stored in word 0.
fn corruptions(rng: &mut StdRng, valid: &[u8], lay: &Layout, type_tag: u8) -> Vec<(&'static str, Vec<u8>)> {
    let mut out: Vec<(&'static str, Vec<u8>)> = Vec::new();
    let n = valid.len();

    // flip one random bit (twice: two independent positions)
    for _ in 0..2 {
        let mut c = valid.to_vec();
        let bit = rng.gen_range(0..n * 8);
        c[bit / 8] ^= 1 << (bit % 8);
        out.push(("bit_flip", c));
    }

    // dirty one padding byte of a dynamic field
    let padded: Vec<(usize, usize)> = lay.padding.iter().copied().filter(|(s, e)| e > s).collect();
    if !padded.is_empty() {
        let (s, e) = padded[rng.gen_range(0..padded.len())];
        let mut c = valid.to_vec();
        c[rng.gen_range(s..e)] = rng.gen_range(1..=255u8);
        out.push(("dirty_padding", c));
        // and specifically the LAST byte of the padding (= last byte of a 32-byte slot)
        let mut c = valid.to_vec();
        c[e - 1] = 1;
        out.push(("dirty_padding_last_byte", c));
    }

    // trailing bytes: 1..=64 random ones, and a block of zeros (looks like padding / an empty tail)
    let mut c = valid.to_vec();
    let k = rng.gen_range(1..=64);
    c.extend((0..k).map(|_| rng.gen::<u8>()));
    out.push(("trailing_random_bytes", c));
    let mut c = valid.to_vec();
    let k = [1usize, 31, 32, 64][rng.gen_range(0..4)];
    c.extend(std::iter::repeat(0u8).take(k));
    out.push(("trailing_zero_bytes", c));

    // shift one offset word by +32 and by -32
    if !lay.offset_words.is_empty() {
        let pos = lay.offset_words[rng.gen_range(0..lay.offset_words.len())];
        let old = read_word_usize(valid, pos);
        let mut c = valid.to_vec();
        write_word(&mut c, pos, ref_word(old as u128 + 32));
        out.push(("offset_plus_32", c));
        let pos = lay.offset_words[rng.gen_range(0..lay.offset_words.len())];
        let old = read_word_usize(valid, pos);
        let mut c = valid.to_vec();
        write_word(&mut c, pos, ref_word(old as u128 - 32));
        out.push(("offset_minus_32", c));
        // two dynamic fields sharing one tail
        if lay.offset_words.len() >= 2 {
            let i = rng.gen_range(0..lay.offset_words.len());
            let j = (i + 1 + rng.gen_range(0..lay.offset_words.len() - 1)) % lay.offset_words.len();
            let mut c = valid.to_vec();
            let src = read_word_usize(valid, lay.offset_words[j]);
            write_word(&mut c, lay.offset_words[i], ref_word(src as u128));
            out.push(("offset_aliased", c));
        }
        // offset far outside / huge
        let pos = lay.offset_words[rng.gen_range(0..lay.offset_words.len())];
        let mut c = valid.to_vec();
        write_word(&mut c, pos, [0xFF; 32]);
        out.push(("offset_huge", c));
        for (name, v) in [("offset_2p64_minus_1", u64::MAX as u128), ("offset_2p64_minus_32", u64::MAX as u128 - 31), ("offset_2p63", 1u128 << 63), ("offset_2p32_minus_1", u32::MAX as u128)] {
            let pos = lay.offset_words[rng.gen_range(0..lay.offset_words.len())];
            let mut c = valid.to_vec();
            write_word(&mut c, pos, ref_word(v));
            out.push((name, c));
        }
    }

    // change one length word by +1 and by -1
    if !lay.length_words.is_empty() {
        let pos = lay.length_words[rng.gen_range(0..lay.length_words.len())];
        let old = read_word_usize(valid, pos);
        let mut c = valid.to_vec();
        write_word(&mut c, pos, ref_word(old as u128 + 1));
        out.push(("length_plus_1", c));
        let nonzero: Vec<usize> = lay.length_words.iter().copied().filter(|p| read_word_usize(valid, *p) > 0).collect();
        if !nonzero.is_empty() {
            let pos = nonzero[rng.gen_range(0..nonzero.len())];
            let old = read_word_usize(valid, pos);
            let mut c = valid.to_vec();
            write_word(&mut c, pos, ref_word(old as u128 - 1));
            out.push(("length_minus_1", c));
        }
        let pos = lay.length_words[rng.gen_range(0..lay.length_words.len())];
        let mut c = valid.to_vec();
        write_word(&mut c, pos, [0xFF; 32]);
        out.push(("length_huge", c));
        // a length that fits a 64-bit usize but makes `position + length` wrap around
        // (added after a random bit flip hit it: seed 7, case 3612 of a 10000-case run)
        for (name, v) in [
            ("length_wraps_2p64_minus_1", u64::MAX as u128),
            ("length_wraps_2p64_minus_32", u64::MAX as u128 - 31),
            ("length_2p64_minus_33", u64::MAX as u128 - 32),
            ("length_2p63", 1u128 << 63),
            // the same boundary for a 32-bit usize (the wasm32 build); harmless on a 64-bit host
            ("length_2p32_minus_1", u32::MAX as u128),
        ] {
            let pos = lay.length_words[rng.gen_range(0..lay.length_words.len())];
            let mut c = valid.to_vec();
            write_word(&mut c, pos, ref_word(v));
            out.push((name, c));
        }
    }

    // message type word
    let tag = type_tag as u128;
    for (name, w) in [
        ("type_5", ref_word(5)),
        ("type_255", ref_word(255)),
        ("type_256_plus_tag", ref_word(256 + tag)),
        ("type_2p255_plus_tag", word_2p255_plus(tag)),
    ] {
        let mut c = valid.to_vec();
        write_word(&mut c, 0, w);
        out.push((name, c));
    }
    // another *defined* tag (0..=4): may legitimately decode, then it must re-encode to the same bytes
    let other = (type_tag + rng.gen_range(1..5u8)) % 5;
    let mut c = valid.to_vec();
    write_word(&mut c, 0, ref_word(other as u128));
    out.push(("type_other_defined_tag", c));

    // truncate to a random proper prefix; and to exactly the head
    out.push(("truncated", valid[..rng.gen_range(0..n)].to_vec()));
    out.push(("truncated_to_word_boundary", valid[..32 * rng.gen_range(0..n / 32)].to_vec()));

    out
}

/// corruptions that exist only for the inner message
fn inner_only_corruptions(rng: &mut StdRng, valid: &[u8], lay: &Layout, m: &MMessage) -> Vec<(&'static str, Vec<u8>)> {
    let mut out: Vec<(&'static str, Vec<u8>)> = Vec::new();
    match m {
        MMessage::Transfer { amount, .. } => {
            let k = *amount as u128; // 0 <= k < 2^127
            let mut w_2p127 = [0u8; 32];
            w_2p127[16] = 0x80;
            let mut w_2p128m1 = [0u8; 32];
            for b in &mut w_2p128m1[16..] {
                *b = 0xFF;
            }
            let mut w_2p128pk = ref_word(k);
            w_2p128pk[15] = 1;
            for (name, w) in [
                ("amount_2p127", w_2p127),
                ("amount_2p128_minus_1", w_2p128m1),
                ("amount_2p255_plus_k", word_2p255_plus(k)),
                ("amount_2p128_plus_k", w_2p128pk),
                ("amount_2p256_minus_1", [0xFF; 32]),
            ] {
                let mut c = valid.to_vec();
                write_word(&mut c, INNER_WORD4, w);
                out.push((name, c));
            }
        }
        MMessage::Deploy { .. } => {
            // uint8 decimals: a set bit in the upper 31 bytes of the word
            let mut c = valid.to_vec();
            let bit = rng.gen_range(0..31 * 8);
            c[INNER_WORD4 + bit / 8] |= 1 << (bit % 8);
            out.push(("decimals_above_uint8", c));
            // name / symbol (dynamic fields 0 and 1): one byte that can never occur in UTF-8
            let strings: Vec<(usize, usize)> = lay.data[..2].iter().copied().filter(|(s, e)| e > s).collect();
            if !strings.is_empty() {
                let (s, e) = strings[rng.gen_range(0..strings.len())];
                let mut c = valid.to_vec();
                c[rng.gen_range(s..e)] = 0xFF;
                out.push(("invalid_utf8", c));
            }
        }
    }
    out
}

/// random words that look like small offsets / lengths / tags: gets past the first checks of the decoder
fn gen_wordy(rng: &mut StdRng, first_tags: &[u8]) -> Vec<u8> {
    let words = rng.gen_range(1..=12);
    let mut v = Vec::new();
    for i in 0..words {
        let w = if i == 0 {
            ref_word(first_tags[rng.gen_range(0..first_tags.len())] as u128)
        } else {
            match rng.gen_range(0..6) {
                0 | 1 => ref_word(32 * rng.gen_range(0..=12u128)),
                2 => ref_word(rng.gen_range(0..=70u128)),
                3 => [0u8; 32],
                4 => {
                    let mut w = [0u8; 32];
                    let k = rng.gen_range(1..=32);
                    for b in &mut w[..k] {
                        *b = rng.gen();
                    }
                    w
                }
                _ => rng.gen(),
            }
        };
        v.extend_from_slice(&w);
    }
    if rng.gen_range(0..4) == 0 {
        v.truncate(v.len() - rng.gen_range(0..32));
    }
    v
}

// ---------------------------------------------------------------------------------------------
// Tests
// ---------------------------------------------------------------------------------------------

/// Anchor for the reference encoder: three encodings written out by hand from the ABI specification.
#[test]
fn reference_encoder_selfcheck() {
    fn unhex(s: &str) -> Vec<u8> {
        let s: String = s.chars().filter(|c| !c.is_whitespace()).collect();
        (0..s.len() / 2).map(|i| u8::from_str_radix(&s[2 * i..2 * i + 2], 16).unwrap()).collect()
    }
    // abi.encode(uint256(3), "ab", hex"01")
    let (got, lay) = ref_wrap(true, "ab", &[1]);
    let want = unhex(
        "0000000000000000000000000000000000000000000000000000000000000003
         0000000000000000000000000000000000000000000000000000000000000060
         00000000000000000000000000000000000000000000000000000000000000a0
         0000000000000000000000000000000000000000000000000000000000000002
         6162000000000000000000000000000000000000000000000000000000000000
         0000000000000000000000000000000000000000000000000000000000000001
         0100000000000000000000000000000000000000000000000000000000000000",
    );
    assert_eq!(hex(&got), hex(&want));
    assert_eq!(lay.offset_words, vec![32, 64]);
    assert_eq!(lay.length_words, vec![96, 160]);
    assert_eq!(lay.data, vec![(128, 130), (192, 193)]);
    assert_eq!(lay.padding, vec![(130, 160), (193, 224)]);

    // abi.encode(uint256(0), bytes32(0x11..11), hex"", <32 bytes 0xAA>, uint256(2^127-1), hex"")
    let m = MMessage::Transfer { token_id: [0x11; 32], source_address: vec![], destination_address: vec![0xAA; 32], amount: i128::MAX, data: None };
    let want = unhex(
        "0000000000000000000000000000000000000000000000000000000000000000
         1111111111111111111111111111111111111111111111111111111111111111
         00000000000000000000000000000000000000000000000000000000000000c0
         00000000000000000000000000000000000000000000000000000000000000e0
         000000000000000000000000000000007fffffffffffffffffffffffffffffff
         0000000000000000000000000000000000000000000000000000000000000120
         0000000000000000000000000000000000000000000000000000000000000000
         0000000000000000000000000000000000000000000000000000000000000020
         aaaaaaaaaaaaaaaaaaaaaaaaaaaaaaaaaaaaaaaaaaaaaaaaaaaaaaaaaaaaaaaa
         0000000000000000000000000000000000000000000000000000000000000000",
    );
    assert_eq!(hex(&ref_message(&m).0), hex(&want));
    // Some(empty) encodes like None
    let m2 = MMessage::Transfer { token_id: [0x11; 32], source_address: vec![], destination_address: vec![0xAA; 32], amount: i128::MAX, data: Some(vec![]) };
    assert_eq!(ref_message(&m2).0, want);

    // abi.encode(uint256(1), bytes32(0), "€" (3 bytes), "", uint8(255), hex"0102")
    let m = MMessage::Deploy { token_id: [0; 32], name: "€".to_string(), symbol: String::new(), decimals: 255, minter: Some(vec![1, 2]) };
    let want = unhex(
        "0000000000000000000000000000000000000000000000000000000000000001
         0000000000000000000000000000000000000000000000000000000000000000
         00000000000000000000000000000000000000000000000000000000000000c0
         0000000000000000000000000000000000000000000000000000000000000100
         00000000000000000000000000000000000000000000000000000000000000ff
         0000000000000000000000000000000000000000000000000000000000000120
         0000000000000000000000000000000000000000000000000000000000000003
         e282ac0000000000000000000000000000000000000000000000000000000000
         0000000000000000000000000000000000000000000000000000000000000000
         0000000000000000000000000000000000000000000000000000000000000002
         0102000000000000000000000000000000000000000000000000000000000000",
    );
    assert_eq!(hex(&ref_message(&m).0), hex(&want));
}

fn env_u64(name: &str, default: u64) -> u64 {
    match std::env::var(name) {
        Ok(v) if !v.trim().is_empty() => v.trim().parse().unwrap_or_else(|_| panic!("{name}={v:?} is not a number")),
        _ => default,
    }
}

fn case_rng(seed: u64, case: usize) -> StdRng {
    StdRng::seed_from_u64(seed.wrapping_mul(0x9E37_79B9_7F4A_7C15) ^ (case as u64).wrapping_mul(0xD1B5_4A32_D192_ED03) ^ 0x5EED)
}

#[test]
fn codec_differential() {
    let cases = env_u64("CODEC_CASES", 300) as usize;
    let seed = env_u64("VERIF_SEED", 0);
    let only: Option<usize> = std::env::var("CODEC_ONLY_CASE").ok().and_then(|v| v.trim().parse().ok());
    // with --nocapture libtest has just printed "test codec_differential ... " WITHOUT a newline:
    // finish that line so that every marker line below starts in column 0
    println!();
    println!("CODEC-BEGIN cases={cases} seed={seed}");
    install_panic_hook();

    let exclude: Vec<String> = std::env::var("CODEC_EXCLUDE")
        .unwrap_or_default()
        .split(',')
        .map(|p| p.trim().to_string())
        .filter(|p| !p.is_empty())
        .collect();
    let mut rep = Report { seed, exclude, excluded: BTreeMap::new(), violations: 0, accepted_noncanonical: 0, panics: 0, stats: BTreeMap::new(), violations_by_check: BTreeMap::new() };
    let (mut valid, mut reference_matches, mut roundtrips) = (0usize, 0usize, 0usize);

    for case in 0..cases {
        if only.is_some_and(|c| c != case) {
            continue;
        }
        let mut rng = case_rng(seed, case);
        let mut env = fresh_env();
        let hub = gen_hub(&mut rng, case);
        valid += 1;

        // ---- (c) positive checks -------------------------------------------------------------
        let (ref_inner, inner_layout) = ref_message(&hub.message);
        let (ref_outer, outer_layout) = ref_hub(&hub);

        IN_PROBE.store(true, Ordering::SeqCst);
        let positive = catch_unwind(AssertUnwindSafe(|| {
            let e = &env;
            let real_inner = api::message_encode(e, to_real_message(e, &hub.message)).map(|b| vbytes(&b));
            let real_outer = api::hub_encode(e, to_real_hub(e, &hub)).map(|b| vbytes(&b));
            // decode what the REAL encoder produced (when it produced something)
            let back_inner = real_inner.as_ref().ok().map(|b| api::message_decode(e, &sbytes(e, b)).map(|m| from_real_message(&m)));
            let back_outer = real_outer.as_ref().ok().map(|b| api::hub_decode(e, &sbytes(e, b)).map(|m| from_real_hub(&m)));
            (real_inner, real_outer, back_inner, back_outer)
        }));
        IN_PROBE.store(false, Ordering::SeqCst);
        let (real_inner, real_outer, back_inner, back_outer) = match positive {
            Ok(t) => t,
            Err(p) => {
                rep.panics += 1;
                rep.violation("panic:valid_message", case, &format!("{hub:?} -- panicked: {}", panic_text(p)));
                continue;
            }
        };

        let mut matches = true;
        match &real_inner {
            Ok(b) if *b == ref_inner => {}
            Ok(b) => {
                matches = false;
                rep.violation("encode_matches_reference/message", case, &format!("{:?} -- real {} reference {}", hub.message, hex(b), hex(&ref_inner)));
            }
            Err(e) => {
                matches = false;
                rep.violation("encode_matches_reference/message", case, &format!("{:?} -- real encoder returned {e:?}", hub.message));
            }
        }
        match &real_outer {
            Ok(b) if *b == ref_outer => {}
            Ok(b) => {
                matches = false;
                rep.violation("encode_matches_reference/hub", case, &format!("{hub:?} -- real {} reference {}", hex(b), hex(&ref_outer)));
            }
            Err(e) => {
                matches = false;
                rep.violation("encode_matches_reference/hub", case, &format!("{hub:?} -- real encoder returned {e:?}"));
            }
        }
        if matches {
            reference_matches += 1;
        }

        let mut rt = true;
        match &back_inner {
            Some(Ok(Ok(m))) if *m == hub.message.normalised() => {}
            None => rt = false, // encoder failed: already reported above
            Some(other) => {
                rt = false;
                rep.violation("roundtrip/message", case, &format!("sent {:?} -- decode(encode(m)) = {other:?}", hub.message));
            }
        }
        match &back_outer {
            Some(Ok(Ok(m))) if *m == hub.normalised() => {}
            None => rt = false,
            Some(other) => {
                rt = false;
                rep.violation("roundtrip/hub", case, &format!("sent {hub:?} -- decode(encode(m)) = {other:?}"));
            }
        }
        if rt {
            roundtrips += 1;
        }

        // ---- (d) negative checks -------------------------------------------------------------
        // The corruptions start from the REFERENCE encoding (equal to the real one unless reported above),
        // so they do not depend on the encoder under test.
        //
        // 1. the outer tuple's own words (and random bit flips / truncations anywhere, inner bytes included)
        for (name, c) in corruptions(&mut rng, &ref_outer, &outer_layout, hub.tag()) {
            run_probe(&mut rep, &mut env, case, &format!("outer:{name}"), Decoder::Hub, &c);
        }
        // the chain string: a byte that can never occur in UTF-8
        if !hub.chain.is_empty() {
            let (s, e) = outer_layout.data[0];
            let mut c = ref_outer.clone();
            c[rng.gen_range(s..e)] = 0xFF;
            run_probe(&mut rep, &mut env, case, "outer:invalid_utf8", Decoder::Hub, &c);
        }
        // 2. the inner tuple: given to Message::abi_decode as it is, and re-wrapped in an otherwise
        //    canonical outer message (length word and padding adjusted) to HubMessage::abi_decode
        let mut inner_corrupted = corruptions(&mut rng, &ref_inner, &inner_layout, hub.message.tag());
        inner_corrupted.extend(inner_only_corruptions(&mut rng, &ref_inner, &inner_layout, &hub.message));
        for (name, c) in inner_corrupted {
            run_probe(&mut rep, &mut env, case, &format!("inner:{name}"), Decoder::Message, &c);
            let (wrapped, _) = ref_wrap(hub.send, &hub.chain, &c);
            run_probe(&mut rep, &mut env, case, &format!("inner:{name}"), Decoder::Hub, &wrapped);
        }
        // 3. arbitrary bytes
        for _ in 0..2 {
            let len = rng.gen_range(0..=400);
            let r: Vec<u8> = (0..len).map(|_| rng.gen()).collect();
            run_probe(&mut rep, &mut env, case, "random:bytes", Decoder::Hub, &r);
            run_probe(&mut rep, &mut env, case, "random:bytes", Decoder::Message, &r);
        }
        for _ in 0..2 {
            // a defined tag in front of random bytes
            let len = rng.gen_range(0..=368);
            let mut r: Vec<u8> = ref_word(rng.gen_range(0..=4u128)).to_vec();
            r.extend((0..len).map(|_| rng.gen::<u8>()));
            run_probe(&mut rep, &mut env, case, "random:tag_then_bytes", Decoder::Hub, &r);
            run_probe(&mut rep, &mut env, case, "random:tag_then_bytes", Decoder::Message, &r);
        }
        for _ in 0..3 {
            let r = gen_wordy(&mut rng, &[3, 4]);
            run_probe(&mut rep, &mut env, case, "random:small_words", Decoder::Hub, &r);
            let r = gen_wordy(&mut rng, &[0, 1]);
            run_probe(&mut rep, &mut env, case, "random:small_words", Decoder::Message, &r);
            // plausible inner garbage inside a canonical wrapper
            let (wrapped, _) = ref_wrap(hub.send, &hub.chain, &r);
            run_probe(&mut rep, &mut env, case, "random:small_words_wrapped", Decoder::Hub, &wrapped);
        }
    }

    let corrupted_inputs: usize = rep.stats.values().map(|s| s.inputs).sum();
    for (name, s) in &rep.stats {
        println!("CODEC-STATS {name} inputs={} rejected={} accepted_canonical={}", s.inputs, s.rejected, s.accepted_canonical);
    }
    for (check, n) in &rep.violations_by_check {
        println!("CODEC-VIOLATION-COUNT {check} {n}");
    }
    for pat in &rep.exclude {
        println!("CODEC-EXCLUDED {pat} skipped={}", rep.excluded.get(pat).copied().unwrap_or(0));
    }
    if rep.violations > MAX_PRINTED_VIOLATIONS {
        println!("CODEC-VIOLATIONS-NOT-PRINTED {}", rep.violations - MAX_PRINTED_VIOLATIONS);
    }
    println!(
        "CODEC-SUMMARY valid={valid} reference_matches={reference_matches} roundtrips={roundtrips} corrupted_inputs={corrupted_inputs} accepted_noncanonical={} panics={}",
        rep.accepted_noncanonical, rep.panics
    );
    let _ = std::panic::take_hook();
    assert!(rep.violations == 0, "{} codec violation(s), see the CODEC-VIOLATION lines (seed={seed})", rep.violations);
    assert!(valid > 0, "no case ran");
}
