#!/usr/bin/env python3
"""Replay one scenario on the REAL Soroban host (soroban-sdk testutils) against the REAL repository code.

usage:  run_scenario.py <scenario> [--repo /repo]
        run_scenario.py --list

exit 1  VIOLATION-REPRODUCED <scenario>: <observed>   the real code exhibits the violation the scenario looks for
exit 0  HOLDS <scenario>: <observed>                  the real code behaves as the property demands
exit 2  the crate does not build, the scenario is unknown, or the scenario's own setup / positive
        control broke (nothing can be concluded); the cargo / test output tail is printed.

The verdict line is the LAST line on stdout; cargo's chatter goes to stderr.
"""
import argparse
import os
import re
import sys
import time

sys.dont_write_bytecode = True
sys.path.insert(0, os.path.dirname(os.path.abspath(__file__)))
import replaylib as L  # noqa: E402

SCEN_RE = re.compile(r"^// SCENARIO\s+(\w+)\s*\|\s*([^|]+?)\s*\|\s*(.+?)\s*$", re.M)


def scenarios():
    """[(name, [obligation ids], description)] read from the registry comments of template/tests/scenarios.rs."""
    src = open(os.path.join(L.TEMPLATE, "tests", "scenarios.rs")).read()
    out = []
    for name, obls, desc in SCEN_RE.findall(src):
        if not re.search(r"#\[test\]\s*fn\s+" + re.escape(name) + r"\s*\(", src):
            raise RuntimeError(f"registry comment names {name} but there is no #[test] fn {name}")
        out.append((name, [o.strip() for o in obls.split(",")], desc))
    return out


def main():
    ap = argparse.ArgumentParser(description=__doc__, formatter_class=argparse.RawDescriptionHelpFormatter)
    ap.add_argument("scenario", nargs="?")
    ap.add_argument("--repo", default=os.environ.get("VERIF_REPO", "/repo"))
    ap.add_argument("--list", action="store_true")
    ap.add_argument("--quiet", action="store_true", help="do not echo cargo's stderr")
    a = ap.parse_args()

    scen = scenarios()
    if a.list:
        for name, obls, desc in scen:
            print(f"{name}\t{','.join(obls)}\t{desc}")
        return 0
    if not a.scenario:
        ap.print_usage()
        return 2
    if a.scenario not in [s[0] for s in scen]:
        print(f"ERROR unknown scenario {a.scenario!r}; known: {', '.join(s[0] for s in scen)}")
        return 2

    t0 = time.time()
    try:
        with L.WorkLock():
            L.instantiate(a.repo)
            rc, out, err = L.cargo_test("scenarios", harness_args=[a.scenario, "--exact", "--nocapture", "--test-threads=1"])
    except Exception as e:  # timeout, bad repo path, ...
        print(f"ERROR {a.scenario}: {e}")
        return 2
    dt = time.time() - t0
    if not a.quiet:
        L.eprint(L.tail(err, 15))
        L.eprint(f"[run_scenario] {a.scenario} repo={os.path.abspath(a.repo)} cargo rc={rc} {dt:.1f}s")

    if L.build_failed(out, err):
        print(L.tail(err, 60))
        print(f"ERROR {a.scenario}: the replay crate does not build against {a.repo} (cargo rc={rc})")
        return 2
    ran = re.search(r"^running (\d+) tests?$", out, re.M)
    if not ran or ran.group(1) != "1":
        print(L.tail(out, 30))
        print(f"ERROR {a.scenario}: expected exactly one test to run, cargo ran {ran.group(1) if ran else '?'}")
        return 2
    markers = re.findall(r"^REPLAY-RESULT: (violation|holds)\s*(.*)$", out, re.M)
    passed = re.search(r"^test result: ok\. 1 passed", out, re.M) is not None
    if rc != 0 or not passed or len(markers) != 1:
        # the scenario's setup or positive control broke: no verdict
        print(L.tail(out, 40))
        print(L.tail(err, 20))
        print(f"ERROR {a.scenario}: scenario did not reach a verdict (cargo rc={rc}, markers={len(markers)}); setup or control failed")
        return 2
    kind, observed = markers[0]
    if kind == "violation":
        print(f"VIOLATION-REPRODUCED {a.scenario}: {observed}")
        return 1
    print(f"HOLDS {a.scenario}: {observed}")
    return 0


if __name__ == "__main__":
    sys.exit(main())
