#!/usr/bin/env python3
"""Shim conformance test: run the micro-scenarios of template/tests/conformance.rs on the REAL Soroban host
(soroban-sdk testutils) and report, per assumed axiom of the abstract host model, whether the real host
behaves as the model assumes.

usage:  conformance.py [--repo /repo] [--json PATH]

prints  CONFORMANCE <axiom> ok|FAILED  <test>      one line per test (a failing test = the axiom is wrong for the real host)
        CONFORMANCE-SUMMARY <axiom> ok|FAILED      one line per axiom id
exit 0  all ok
exit 1  at least one axiom test FAILED
exit 2  the crate does not build / the harness did not run / a registered test did not run
writes  /verif/.work/replay/conformance.json  (list of {axiom, test, status, statement, notes})
"""
import argparse
import json
import os
import re
import sys
import time

sys.dont_write_bytecode = True
sys.path.insert(0, os.path.dirname(os.path.abspath(__file__)))
import replaylib as L  # noqa: E402

AXIOM_RE = re.compile(r"^// AXIOM\s+(\w+)\s*\|\s*([^|]+?)\s*\|\s*(.+?)\s*$", re.M)


def registry():
    src = open(os.path.join(L.TEMPLATE, "tests", "conformance.rs")).read()
    out = []
    for test, axioms, statement in AXIOM_RE.findall(src):
        if not re.search(r"#\[test\]\s*fn\s+" + re.escape(test) + r"\s*\(", src):
            raise RuntimeError(f"registry comment names {test} but there is no #[test] fn {test}")
        out.append((test, [x.strip() for x in axioms.split(",")], statement))
    tests = set(re.findall(r"#\[test\]\s*fn\s+(\w+)\s*\(", src))
    missing = tests - {t for t, _, _ in out}
    if missing:
        raise RuntimeError(f"tests without an AXIOM registry comment: {sorted(missing)}")
    return out


def main():
    ap = argparse.ArgumentParser(description=__doc__, formatter_class=argparse.RawDescriptionHelpFormatter)
    ap.add_argument("--repo", default=os.environ.get("VERIF_REPO", "/repo"))
    ap.add_argument("--json", default=os.path.join(L.WORK, "conformance.json"))
    ap.add_argument("--quiet", action="store_true")
    a = ap.parse_args()

    reg = registry()
    t0 = time.time()
    try:
        with L.WorkLock():
            L.instantiate(a.repo)
            # --no-fail-fast is irrelevant for one binary; no --nocapture: libtest prints captured output of failures only,
            # the NOTE lines are collected with --show-output
            rc, out, err = L.cargo_test("conformance", harness_args=["--test-threads=4", "--show-output"])
    except Exception as e:
        print(f"ERROR conformance: {e}")
        return 2
    dt = time.time() - t0
    if not a.quiet:
        L.eprint(L.tail(err, 8))
        L.eprint(f"[conformance] repo={os.path.abspath(a.repo)} cargo rc={rc} {dt:.1f}s")
    if L.build_failed(out, err):
        print(L.tail(err, 80))
        print(f"ERROR conformance: the crate does not build against {a.repo} (cargo rc={rc})")
        return 2

    status = dict(re.findall(r"^test (\w+) \.\.\. (ok|FAILED|ignored)", out, re.M))
    notes = {}
    for test, note in re.findall(r"^CONFORMANCE-NOTE (\w+): (.*)$", out, re.M):
        notes.setdefault(test, [])
        if note not in notes[test]:
            notes[test].append(note)
    results = []
    per_axiom = {}
    not_run = []
    for test, axioms, statement in reg:
        st = status.get(test)
        if st is None or st == "ignored":
            not_run.append(test)
            st = "not-run"
        st = {"ok": "ok", "FAILED": "FAILED"}.get(st, st)
        for ax in axioms:
            results.append({"axiom": ax, "test": test, "status": st, "statement": statement,
                            "notes": notes.get(test, [])})
            print(f"CONFORMANCE {ax} {st}  {test}")
            per_axiom.setdefault(ax, []).append(st)
    for ax, sts in per_axiom.items():
        s = "ok" if all(x == "ok" for x in sts) else "FAILED"
        print(f"CONFORMANCE-SUMMARY {ax} {s} ({sum(x == 'ok' for x in sts)}/{len(sts)} tests)")
    os.makedirs(os.path.dirname(a.json), exist_ok=True)
    with open(a.json, "w") as f:
        json.dump(results, f, indent=1)
    failed = [r for r in results if r["status"] == "FAILED"]
    if failed:
        # show why
        m = re.search(r"^failures:\n(.*?)^failures:\n", out, re.M | re.S)
        if m:
            print(L.tail(m.group(1), 80))
    if not_run:
        print(f"ERROR conformance: registered tests did not run: {', '.join(not_run)}")
        return 2
    if failed:
        print(f"CONFORMANCE-RESULT FAILED: {len(failed)} axiom test(s) failed on the real host ({dt:.0f}s)")
        return 1
    print(f"CONFORMANCE-RESULT ok: {len(reg)} tests, {len(per_axiom)} axioms, all as the model assumes ({dt:.0f}s)")
    return 0


if __name__ == "__main__":
    sys.exit(main())
