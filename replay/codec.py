#!/usr/bin/env python3
"""Randomized differential test of the interchain-token-service ABI codec (property C10, the part about the
alloy-based encoder/decoder) -- BOUNDED / SAMPLED evidence, never a proof.

The repository's real `contracts/interchain-token-service/src/abi.rs` (compiled unmodified) is compared with an
independent reference encoder written from the Solidity ABI specification, on random representable hub
messages, and its decoder is fed corrupted and random inputs (template/tests/codec.rs).

usage:  codec.py [--repo /repo] [--cases N] [--seed S] [--out FILE.json] [--exclude SUBSTR]... [--quiet]

exit 0  CODEC-OK ...                     every sampled check agreed
exit 1  VIOLATION-REPRODUCED codec: ...  at least one CODEC-VIOLATION (encoder != reference, round trip differs,
                                         a non-canonical input was accepted, or the codec panicked)
exit 2  ERROR codec: ...                 the crate does not build / the test did not run to its summary (no verdict)

The verdict line is the LAST line on stdout.  JSON (--out, default /verif/.work/replay/codec.json):
  {status: ok|violation|undecided, cases, corrupted_inputs, violations: [{check, detail}], seed, wall_s, bound, ...}
"""
import argparse
import json
import os
import re
import sys
import time

sys.dont_write_bytecode = True
sys.path.insert(0, os.path.dirname(os.path.abspath(__file__)))
import replaylib as L  # noqa: E402

VIOLATION_RE = re.compile(r"^CODEC-VIOLATION (\S+) seed=(\d+) case=(\d+): (.*)$", re.M)
STATS_RE = re.compile(r"^CODEC-STATS (\S+) inputs=(\d+) rejected=(\d+) accepted_canonical=(\d+)$", re.M)
SUMMARY_RE = re.compile(
    r"^CODEC-SUMMARY valid=(\d+) reference_matches=(\d+) roundtrips=(\d+) corrupted_inputs=(\d+) "
    r"accepted_noncanonical=(\d+) panics=(\d+)$", re.M)
NOT_PRINTED_RE = re.compile(r"^CODEC-VIOLATIONS-NOT-PRINTED (\d+)$", re.M)


def bound_text(cases, corrupted=None):
    # the number of corrupted / random inputs per message is whatever the run actually did (about 85 with the
    # current set of corruptions); before the run it is unknown
    per = f"~{round(corrupted / cases)}" if corrupted and cases else "several dozen"
    return f"field lengths <= 70 bytes, strings <= 40 bytes, {cases} random messages + {per} corrupted/random inputs each"


def main():
    ap = argparse.ArgumentParser(description=__doc__, formatter_class=argparse.RawDescriptionHelpFormatter)
    ap.add_argument("--repo", default=os.environ.get("VERIF_REPO", "/repo"))
    ap.add_argument("--cases", type=int, default=int(os.environ.get("CODEC_CASES", "300")))
    ap.add_argument("--seed", type=int, default=int(os.environ.get("VERIF_SEED", "0")))
    ap.add_argument("--out", default=os.path.join(L.WORK, "codec.json"))
    ap.add_argument("--exclude", action="append", default=[], metavar="SUBSTR",
                    help="do not run the inputs of checks whose name contains SUBSTR (repeatable); recorded in the "
                         "JSON and in the verdict line.  For telling a KNOWN finding apart from new ones -- "
                         "an excluded check is not evidence of anything")
    ap.add_argument("--quiet", action="store_true", help="do not echo cargo's stderr")
    a = ap.parse_args()
    if a.cases < 1 or a.seed < 0:
        print("ERROR codec: --cases must be >= 1 and --seed >= 0")
        return 2

    result = {
        "property": "C10",
        "kind": "bounded / sampled (randomized differential test) -- not a proof",
        "status": "undecided",
        "cases": a.cases,
        "corrupted_inputs": 0,
        "violations": [],
        "seed": a.seed,
        "wall_s": 0.0,
        "bound": bound_text(a.cases),
        "repo": os.path.abspath(a.repo),
        "excluded_checks": {p: 0 for p in a.exclude},
    }
    excl = f" EXCLUDING checks matching {a.exclude}" if a.exclude else ""

    def finish(rc, line):
        result["wall_s"] = round(time.time() - t0, 1)
        try:
            os.makedirs(os.path.dirname(os.path.abspath(a.out)), exist_ok=True)
            with open(a.out, "w") as f:
                json.dump(result, f, indent=1)
        except OSError as e:
            L.eprint(f"[codec] cannot write {a.out}: {e}")
        print(line)
        return rc

    t0 = time.time()
    os.environ["CODEC_CASES"] = str(a.cases)
    os.environ["VERIF_SEED"] = str(a.seed)
    os.environ.pop("CODEC_ONLY_CASE", None)
    os.environ["CODEC_EXCLUDE"] = ",".join(a.exclude)
    try:
        with L.WorkLock():
            L.instantiate(a.repo)
            rc, out, err = L.cargo_test("codec", extra_cargo=["--features", "codec"],
                                        harness_args=["--nocapture", "--test-threads=1"])
    except Exception as e:  # timeout, bad repo path, ...
        result["error"] = str(e)
        return finish(2, f"ERROR codec: {e}")
    dt = time.time() - t0
    if not a.quiet:
        L.eprint(L.tail(err, 15))
        L.eprint(f"[codec] repo={os.path.abspath(a.repo)} cases={a.cases} seed={a.seed} cargo rc={rc} {dt:.1f}s")

    if L.build_failed(out, err):
        print(L.tail(err, 60))
        result["error"] = "build failed"
        return finish(2, f"ERROR codec: the replay crate (feature codec) does not build against {a.repo} (cargo rc={rc})")

    violations = [{"check": c, "case": int(i), "detail": d} for c, _s, i, d in VIOLATION_RE.findall(out)]
    not_printed = sum(int(x) for x in NOT_PRINTED_RE.findall(out))
    summary = SUMMARY_RE.search(out)
    tests = dict(re.findall(r"^test (\w+) \.\.\. (ok|FAILED|ignored)", out, re.M))
    # with --nocapture the "test x ... " prefix and the verdict can be separated by the test's own output
    for name in ("codec_differential", "reference_encoder_selfcheck"):
        if name not in tests:
            m = re.search(r"^test " + name + r" \.\.\. (?:.*\n)*?.*?\b(ok|FAILED)$", out, re.M)
            if m:
                tests[name] = m.group(1)
    result["violations"] = violations
    result["violations_by_check"] = {c: int(n) for c, n in re.findall(r"^CODEC-VIOLATION-COUNT (\S+) (\d+)$", out, re.M)}
    result["violations_not_printed"] = not_printed
    result["per_check"] = {n: {"inputs": int(i), "rejected": int(r), "accepted_canonical": int(c)}
                           for n, i, r, c in STATS_RE.findall(out)}
    result["excluded_checks"] = {p: int(n) for p, n in re.findall(r"^CODEC-EXCLUDED (\S+) skipped=(\d+)$", out, re.M)} or result["excluded_checks"]
    if summary:
        valid, refm, rts, corrupted, noncanon, panics = (int(x) for x in summary.groups())
        result.update({"cases": valid, "reference_matches": refm, "roundtrips": rts, "corrupted_inputs": corrupted,
                       "accepted_noncanonical": noncanon, "panics": panics, "bound": bound_text(valid, corrupted)})

    if violations:
        result["status"] = "violation"
        for v in violations[:10]:
            print(f"CODEC-VIOLATION {v['check']} case={v['case']}: {v['detail'][:400]}")
        checks = sorted(result["violations_by_check"] or {v["check"] for v in violations})
        first = violations[0]
        return finish(1, f"VIOLATION-REPRODUCED codec: {len(violations) + not_printed} violation(s) in checks "
                         f"{', '.join(checks)}{excl}; first: {first['check']} seed={a.seed} case={first['case']}: {first['detail'][:300]}")

    # no violation line: it is a verdict only if BOTH tests ran to the end and passed
    selfcheck = tests.get("reference_encoder_selfcheck")
    if selfcheck != "ok":
        print(L.tail(out, 40))
        result["error"] = "reference encoder self-check failed or did not run"
        return finish(2, f"ERROR codec: the reference encoder's own self-check did not pass ({selfcheck}); no verdict")
    if rc != 0 or not summary or tests.get("codec_differential") != "ok":
        print(L.tail(out, 40))
        print(L.tail(err, 20))
        result["error"] = "test did not run to its summary"
        return finish(2, f"ERROR codec: the differential test did not reach a verdict (cargo rc={rc}, summary={'yes' if summary else 'no'})")
    if not (valid == a.cases and refm == valid and rts == valid and noncanon == 0 and panics == 0 and corrupted > 0):
        result["error"] = "inconsistent summary"
        return finish(2, f"ERROR codec: summary inconsistent with 'no violation': {summary.group(0)}")
    result["status"] = "ok"
    return finish(0, f"CODEC-OK (bounded/sampled, not a proof): {valid} random messages: encoder == reference {refm}/{valid}, "
                     f"round trips {rts}/{valid}; {corrupted} corrupted/random inputs: 0 accepted non-canonically, 0 panics "
                     f"(seed={a.seed}, {result['bound']}, {time.time() - t0:.0f}s){excl}")


if __name__ == "__main__":
    sys.exit(main())
