"""Shared by run_scenario.py and conformance.py: instantiate the crate template and run cargo.

Layout produced (nothing is ever written under the repository or /tmp):

    /verif/.work/replay/crate/     the instantiated template (@REPO@ substituted in every file)
    /verif/.work/replay/target/    CARGO_TARGET_DIR
    /verif/.work/replay/.lock      flock: one cargo at a time in this work area
"""
import fcntl
import os
import re
import shutil
import subprocess
import sys

HERE = os.path.dirname(os.path.abspath(__file__))
TEMPLATE = os.path.join(HERE, "template")
VERIF = os.path.dirname(HERE)
WORK = os.environ.get("REPLAY_WORK", os.path.join(VERIF, ".work", "replay"))
CRATE = os.path.join(WORK, "crate")
TARGET = os.path.join(WORK, "target")
PLACEHOLDER = "@REPO@"


def eprint(*a):
    print(*a, file=sys.stderr, flush=True)


def _write_if_changed(path, data):
    """Keep mtimes stable so that cargo does not rebuild an unchanged crate."""
    try:
        with open(path, "rb") as f:
            if f.read() == data:
                return False
    except FileNotFoundError:
        pass
    os.makedirs(os.path.dirname(path), exist_ok=True)
    with open(path, "wb") as f:
        f.write(data)
    return True


def instantiate(repo):
    """Copy template/ to CRATE, replacing @REPO@; `X.in` becomes `X`.  Returns the crate dir."""
    repo = os.path.abspath(repo)
    if not os.path.isfile(os.path.join(repo, "Cargo.toml")):
        raise RuntimeError(f"{repo} is not a repository root (no Cargo.toml)")
    wanted = set()
    for root, _dirs, files in os.walk(TEMPLATE):
        for fn in files:
            src = os.path.join(root, fn)
            rel = os.path.relpath(src, TEMPLATE)
            if rel.endswith(".in"):
                rel = rel[:-3]
            wanted.add(rel)
            with open(src, "rb") as f:
                data = f.read().replace(PLACEHOLDER.encode(), repo.encode())
            _write_if_changed(os.path.join(CRATE, rel), data)
    # drop files of an older template version (never Cargo.lock)
    for root, _dirs, files in os.walk(CRATE):
        for fn in files:
            p = os.path.join(root, fn)
            rel = os.path.relpath(p, CRATE)
            if rel not in wanted and rel != "Cargo.lock":
                os.remove(p)
    lock = os.path.join(CRATE, "Cargo.lock")
    if not os.path.exists(lock):
        src = os.path.join(repo, "Cargo.lock")
        if os.path.exists(src):
            shutil.copyfile(src, lock)
    return CRATE


class WorkLock:
    def __enter__(self):
        os.makedirs(WORK, exist_ok=True)
        self.f = open(os.path.join(WORK, ".lock"), "w")
        fcntl.flock(self.f, fcntl.LOCK_EX)
        return self

    def __exit__(self, *a):
        fcntl.flock(self.f, fcntl.LOCK_UN)
        self.f.close()


def cargo_env():
    env = dict(os.environ)
    env["CARGO_TARGET_DIR"] = TARGET
    env["CARGO_NET_OFFLINE"] = "true"
    env.setdefault("CARGO_TERM_COLOR", "never")
    # the scenarios print their own diagnostics; a backtrace only hides the marker line
    env["RUST_BACKTRACE"] = "0"
    # rustc / the linker / tests put their temporary files here instead of /tmp
    tmp = os.path.join(WORK, "tmp")
    os.makedirs(tmp, exist_ok=True)
    env["TMPDIR"] = tmp
    return env


def cargo_test(test_binary, extra_cargo=(), harness_args=(), timeout=3000):
    """Run `cargo test --offline --test <test_binary> ...` in CRATE.  Returns (rc, stdout, stderr)."""
    cmd = ["cargo", "test", "--offline", "--test", test_binary, *extra_cargo, "--", *harness_args]
    p = subprocess.run(cmd, cwd=CRATE, env=cargo_env(), stdout=subprocess.PIPE, stderr=subprocess.PIPE, text=True, timeout=timeout)
    return p.returncode, p.stdout, p.stderr


def build_failed(stdout, stderr):
    """True if the harness never started (compile / resolve error)."""
    return not re.search(r"^running \d+ tests?$", stdout, re.M)


def tail(text, n=60):
    lines = text.rstrip().splitlines()
    return "\n".join(lines[-n:])
