#!/bin/sh
# Offline setup after a fresh restore: generate the Kani workspace and pre-build the shared
# dependencies (proc-macros, shim, real std/derive crates) so that the first check does not pay for it.
set -e
cd "$(dirname "$0")"
export CARGO_NET_OFFLINE=true
python3 mkchecks.py >/dev/null
python3 kani/gen_ws.py >/dev/null
cd .work/kani/ws
for c in axelar-gateway axelar-gas-service axelar-operators upgrader interchain-token example interchain-token-service axelar-gateway-api axelar-operators-api; do
  cargo kani -p $c -Z stubbing -Z unstable-options --no-memory-safety-checks --only-codegen >/dev/null 2>&1 || echo "setup: pre-build of $c failed (checks will report it)"
done
echo "setup done"
# pre-build the real-host replay crate (scenarios, conformance, codec differential test)
python3 replay/codec.py --cases 1 --seed 0 --quiet --out .work/codec_setup.json >/dev/null 2>&1 || true
echo "replay crate pre-built"
