#!/usr/bin/env python3
"""Generate the Kani workspace: mirror crates whose modules are the repository's own files.

usage: gen_ws.py [--repo /repo] [--out /verif/.work/kani/ws]
Templates live in /verif/kani/mirror/<crate>/{Cargo.toml,src/lib.rs} with @REPO@/@VERIF@ placeholders.
Also checks that each mirrored lib.rs declares the same module set as the real lib.rs (lost anchor => exit 2).
"""
import argparse, os, re, shutil, sys

VERIF = os.path.dirname(os.path.dirname(os.path.abspath(__file__)))
REAL = {
    "axelar-gateway": "contracts/axelar-gateway",
    "axelar-gas-service": "contracts/axelar-gas-service",
    "axelar-operators": "contracts/axelar-operators",
    "upgrader": "contracts/upgrader",
    "interchain-token": "contracts/interchain-token",
    "example": "contracts/example",
    "interchain-token-service": "contracts/interchain-token-service",
    # API-only units: the same real sources with key-agnostic scenario harnesses (compiled separately, so
    # they survive a change of the storage keys' types that stops the main harnesses from compiling)
    "axelar-gateway-api": "contracts/axelar-gateway",
    "axelar-operators-api": "contracts/axelar-operators",
}
IGNORED_MODS = {"testutils", "test", "tests"}


def real_mods(path):
    src = open(path).read()
    src = re.sub(r"//[^\n]*", "", src)
    return {m for m in re.findall(r"\bmod\s+([a-z_0-9]+)\s*;", src)} - IGNORED_MODS


def mirror_mods(path):
    src = open(path).read()
    src = re.sub(r"//[^\n]*", "", src)
    mods = set(re.findall(r"\bmod\s+([a-z_0-9]+)\s*[;{]", src))
    return mods - {"verif"}


def main():
    ap = argparse.ArgumentParser()
    ap.add_argument("--repo", default=os.environ.get("VERIF_REPO", "/repo"))
    ap.add_argument("--out", default=os.path.join(VERIF, ".work/kani/ws"))
    a = ap.parse_args()
    repo = os.path.abspath(a.repo)
    out = a.out
    os.makedirs(out, exist_ok=True)

    def subst(s):
        return s.replace("@REPO@", repo).replace("@VERIF@", VERIF)

    def write_if_changed(p, s):
        os.makedirs(os.path.dirname(p), exist_ok=True)
        if os.path.exists(p) and open(p).read() == s:
            return
        open(p, "w").write(s)

    write_if_changed(os.path.join(out, "Cargo.toml"), subst(open(os.path.join(VERIF, "kani/ws.Cargo.toml.in")).read()))
    problems = []
    for crate, rel in REAL.items():
        tdir = os.path.join(VERIF, "kani/mirror", crate)
        for sub in ("Cargo.toml", "src/lib.rs"):
            write_if_changed(os.path.join(out, crate, sub), subst(open(os.path.join(tdir, sub)).read()))
        real_lib = os.path.join(repo, rel, "src/lib.rs")
        if not os.path.exists(real_lib):
            problems.append(f"{crate}: {real_lib} missing")
            continue
        rm, mm = real_mods(real_lib), mirror_mods(os.path.join(tdir, "src/lib.rs"))
        if rm != mm:
            problems.append(f"{crate}: module tree differs: real={sorted(rm)} mirror={sorted(mm)}")
    lock = os.path.join(out, "Cargo.lock")
    if not os.path.exists(lock):
        shutil.copy(os.path.join(repo, "Cargo.lock"), lock)
    # offline cargo config
    write_if_changed(os.path.join(out, ".cargo/config.toml"), "[net]\noffline = true\n")
    if problems:
        for p in problems:
            print("LOST-ANCHOR", p)
        sys.exit(2)
    print(out)


if __name__ == "__main__":
    main()
