use proc_macro::TokenStream;
use quote::{format_ident, quote};
use syn::{
    parse_macro_input, Fields, FnArg, GenericArgument, Item, ItemTrait, Pat, PathArguments,
    ReturnType, TraitItem, Type,
};

#[proc_macro_attribute]
pub fn contract(_attr: TokenStream, item: TokenStream) -> TokenStream {
    item
}

#[proc_macro_attribute]
pub fn contractimpl(_attr: TokenStream, item: TokenStream) -> TokenStream {
    item
}

#[proc_macro_attribute]
pub fn contracterror(_attr: TokenStream, item: TokenStream) -> TokenStream {
    let it = parse_macro_input!(item as syn::ItemEnum);
    let name = &it.ident;
    // discriminants as written in the source (`Variant = 3`)
    let discs: Vec<_> = it
        .variants
        .iter()
        .map(|v| {
            let (_, e) = v.discriminant.as_ref().expect("contracterror variants need explicit discriminants");
            quote! { (#e) as u32 }
        })
        .collect();
    let vis: Vec<_> = it.variants.iter().map(|v| v.ident.clone()).collect();
    let first = &vis[0];
    quote! {
        #it
        impl From<#name> for soroban_sdk::Error {
            fn from(e: #name) -> Self { soroban_sdk::Error::from(&e) }
        }
        impl From<&#name> for soroban_sdk::Error {
            fn from(e: &#name) -> Self {
                let code = match e { #( #name::#vis => #discs, )* };
                soroban_sdk::Error::from_contract_error(code)
            }
        }
        impl soroban_sdk::shim::Wordy for #name {
            const NW: usize = 1;
            fn to_words(&self, out: &mut soroban_sdk::shim::Words) { out.push(soroban_sdk::Error::from(self).code() as u64); }
            fn from_words(r: &mut soroban_sdk::shim::Reader) -> Self {
                let c = r.next() as u32;
                #( if c == #discs { return #name::#vis; } )*
                soroban_sdk::shim::assume(false);
                #name::#first
            }
            fn symbolic() -> Self {
                let c: u32 = soroban_sdk::shim::nondet();
                #( if c == #discs { return #name::#vis; } )*
                soroban_sdk::shim::assume(false);
                #name::#first
            }
        }
    }
    .into()
}

#[proc_macro_attribute]
pub fn contracttype(_attr: TokenStream, item: TokenStream) -> TokenStream {
    let it = parse_macro_input!(item as Item);
    match it {
        Item::Struct(s) => {
            let name = &s.ident;
            let ftys: Vec<_> = s.fields.iter().map(|f| f.ty.clone()).collect();
            let nw = quote! { 0 #( + <#ftys as soroban_sdk::shim::Wordy>::NW )* };
            let (to, from, sym) = match &s.fields {
                Fields::Named(n) => {
                    let ids: Vec<_> = n.named.iter().map(|f| f.ident.clone().unwrap()).collect();
                    let tys: Vec<_> = n.named.iter().map(|f| f.ty.clone()).collect();
                    (
                        quote! { #( soroban_sdk::shim::Wordy::to_words(&self.#ids, out); )* },
                        quote! { Self { #( #ids: <#tys as soroban_sdk::shim::Wordy>::from_words(r), )* } },
                        quote! { Self { #( #ids: <#tys as soroban_sdk::shim::Wordy>::symbolic(), )* } },
                    )
                }
                Fields::Unnamed(u) => {
                    let idx: Vec<_> = (0..u.unnamed.len()).map(syn::Index::from).collect();
                    let tys: Vec<_> = u.unnamed.iter().map(|f| f.ty.clone()).collect();
                    (
                        quote! { #( soroban_sdk::shim::Wordy::to_words(&self.#idx, out); )* },
                        quote! { Self ( #( <#tys as soroban_sdk::shim::Wordy>::from_words(r), )* ) },
                        quote! { Self ( #( <#tys as soroban_sdk::shim::Wordy>::symbolic(), )* ) },
                    )
                }
                Fields::Unit => (quote! {}, quote! { Self }, quote! { Self }),
            };
            quote! {
                #s
                impl soroban_sdk::shim::Wordy for #name {
                    const NW: usize = #nw;
                    fn to_words(&self, out: &mut soroban_sdk::shim::Words) { #to }
                    fn from_words(r: &mut soroban_sdk::shim::Reader) -> Self { #from }
                    fn symbolic() -> Self { #sym }
                }
            }
            .into()
        }
        Item::Enum(e) => {
            let name = &e.ident;
            let mut to_arms = vec![];
            let mut from_arms = vec![];
            let mut sym_arms = vec![];
            let n = e.variants.len() as u64;
            let mut nw = quote! { 0usize };
            for v in e.variants.iter() {
                let tys: Vec<_> = v.fields.iter().map(|f| f.ty.clone()).collect();
                nw = quote! { soroban_sdk::shim::cmax(#nw, 0 #( + <#tys as soroban_sdk::shim::Wordy>::NW )* ) };
            }
            // Tag of a variant: like the real SDK, the *variant name* (a Symbol) identifies the variant
            // (the enum's own name is irrelevant); integer enums (`Variant = n`) are their integer.
            let int_enum = e.variants.iter().all(|v| v.discriminant.is_some());
            for (_i, v) in e.variants.iter().enumerate() {
                let vi = &v.ident;
                let vname = vi.to_string();
                let i = if int_enum {
                    let (_, d) = v.discriminant.as_ref().unwrap();
                    quote! { ((#d) as u64) }
                } else {
                    quote! { soroban_sdk::fnv(#vname) }
                };
                match &v.fields {
                    Fields::Unit => {
                        to_arms.push(quote! { #name::#vi => { out.push(#i); } });
                        from_arms.push(quote! { if t == #i { return #name::#vi; } });
                        sym_arms.push(quote! { if t == #i { return #name::#vi; } });
                    }
                    Fields::Unnamed(u) => {
                        let bs: Vec<_> = (0..u.unnamed.len()).map(|k| format_ident!("f{}", k)).collect();
                        let tys: Vec<_> = u.unnamed.iter().map(|f| f.ty.clone()).collect();
                        to_arms.push(quote! { #name::#vi( #(#bs),* ) => { out.push(#i); #( soroban_sdk::shim::Wordy::to_words(#bs, out); )* } });
                        from_arms.push(quote! { if t == #i { return #name::#vi( #( <#tys as soroban_sdk::shim::Wordy>::from_words(r) ),* ); } });
                        sym_arms.push(quote! { if t == #i { return #name::#vi( #( <#tys as soroban_sdk::shim::Wordy>::symbolic() ),* ); } });
                    }
                    Fields::Named(_) => panic!("named enum fields unsupported"),
                }
            }
            let tags: Vec<_> = e.variants.iter().map(|v| {
                let vname = v.ident.to_string();
                if int_enum { let (_, d) = v.discriminant.as_ref().unwrap(); quote! { ((#d) as u64) } } else { quote! { soroban_sdk::fnv(#vname) } }
            }).collect();
            quote! {
                #e
                impl soroban_sdk::shim::Wordy for #name {
                    const NW: usize = 1 + #nw;
                    fn to_words(&self, out: &mut soroban_sdk::shim::Words) { let start = out.n; match self { #(#to_arms)* } out.pad_to(start + Self::NW); }
                    #[allow(unreachable_code)]
                    fn from_words(r: &mut soroban_sdk::shim::Reader) -> Self { let start = r.i; let t = r.next(); let v = (|| { #(#from_arms)* soroban_sdk::shim::assume(false); loop {} })(); r.i = start + Self::NW; v }
                    #[allow(unreachable_code)]
                    fn symbolic() -> Self { let k: u64 = soroban_sdk::shim::nondet_below(#n); let tags = [#(#tags),*]; let t: u64 = tags[k as usize]; #(#sym_arms)* soroban_sdk::shim::assume(false); loop {} }
                }
            }
            .into()
        }
        _ => panic!("contracttype: unsupported item"),
    }
}

fn client_name(attr: TokenStream) -> syn::Ident {
    // name = "X"
    let s = attr.to_string();
    let q1 = s.find('"').expect("name");
    let q2 = s.rfind('"').unwrap();
    format_ident!("{}", &s[q1 + 1..q2])
}

fn unwrap_result(ty: &Type) -> Option<Type> {
    if let Type::Path(p) = ty {
        let last = p.path.segments.last()?;
        if last.ident == "Result" {
            if let PathArguments::AngleBracketed(a) = &last.arguments {
                if let Some(GenericArgument::Type(t)) = a.args.first() {
                    return Some(t.clone());
                }
            }
        }
    }
    None
}

#[proc_macro_attribute]
pub fn contractclient(attr: TokenStream, item: TokenStream) -> TokenStream {
    let cname = client_name(attr);
    let tr = parse_macro_input!(item as ItemTrait);
    let mut methods = vec![];
    for ti in &tr.items {
        if let TraitItem::Fn(f) = ti {
            let sig = &f.sig;
            let fname = &sig.ident;
            let fname_s = fname.to_string();
            let mut args = vec![];
            let mut is_first = true;
            let mut has_env = false;
            for a in &sig.inputs {
                if let FnArg::Typed(pt) = a {
                    if is_first {
                        is_first = false;
                        let tys = quote!(#pt.ty).to_string();
                        let _ = tys;
                        let t = &pt.ty;
                        let ts = quote!(#t).to_string().replace(' ', "");
                        if ts == "Env" || ts == "&Env" {
                            has_env = true;
                            continue;
                        }
                    }
                    if let Pat::Ident(pi) = &*pt.pat {
                        let mut ty = (*pt.ty).clone();
                        if let Type::Reference(r) = &ty {
                            ty = (*r.elem).clone();
                        }
                        args.push((pi.ident.clone(), ty));
                    }
                }
            }
            if !has_env {
                continue;
            }
            let ret = match &sig.output {
                ReturnType::Default => quote!(()),
                ReturnType::Type(_, t) => match unwrap_result(t) {
                    Some(inner) => quote!(#inner),
                    None => quote!(#t),
                },
            };
            let an: Vec<_> = args.iter().map(|(n, _)| n.clone()).collect();
            let at: Vec<_> = args.iter().map(|(_, t)| t.clone()).collect();
            let try_name = format_ident!("try_{}", fname);
            let try_name_s = format!("try_{}", fname_s);
            methods.push(quote! {
                pub fn #fname(&self #(, #an: &#at)*) -> #ret {
                    let mut w = soroban_sdk::shim::Words::new();
                    #( soroban_sdk::shim::Wordy::to_words(#an, &mut w); )*
                    soroban_sdk::shim::invoke::<#ret>(&self.address, #fname_s, w)
                }
                /// The non-trapping variant: the callee's failure is handed back to the caller instead of
                /// failing it.  Logged under its own name (`try_<fn>`), so an obligation that demands the
                /// trapping call is not satisfied by it; the outcome is nondeterministic.
                pub fn #try_name(&self #(, #an: &#at)*) -> Result<Result<#ret, soroban_sdk::ConversionError>, Result<soroban_sdk::Error, soroban_sdk::InvokeError>> {
                    let mut w = soroban_sdk::shim::Words::new();
                    #( soroban_sdk::shim::Wordy::to_words(#an, &mut w); )*
                    let r = soroban_sdk::shim::invoke::<#ret>(&self.address, #try_name_s, w);
                    if soroban_sdk::shim::nondet::<bool>() { Ok(Ok(r)) } else { Err(Ok(soroban_sdk::Error(soroban_sdk::shim::nondet()))) }
                }
            });
        }
    }
    quote! {
        #tr
        pub struct #cname<'a> { pub env: soroban_sdk::Env, pub address: soroban_sdk::Address, _p: core::marker::PhantomData<&'a ()> }
        impl<'a> #cname<'a> {
            pub fn new(env: &soroban_sdk::Env, address: &soroban_sdk::Address) -> Self {
                Self { env: env.clone(), address: address.clone(), _p: core::marker::PhantomData }
            }
            #(#methods)*
        }
    }
    .into()
}

/// `bytesn!(env, 0x..)` / `bytesn!(env, [..])` and `bytes!(..)`: the literal becomes a byte array (as the real macros do).
fn bytes_lit(input: TokenStream, n: bool) -> TokenStream {
    use syn::parse::Parser;
    let args = syn::punctuated::Punctuated::<syn::Expr, syn::Token![,]>::parse_terminated
        .parse(input)
        .expect("bytes!/bytesn!: (env, literal)");
    let env = &args[0];
    let arr = match &args[1] {
        syn::Expr::Lit(syn::ExprLit { lit: syn::Lit::Int(i), .. }) => {
            let t = i.to_string().replace('_', "");
            let h = t.strip_prefix("0x").expect("bytes!/bytesn!: hex literal expected");
            let h = if h.len() % 2 == 1 { format!("0{}", h) } else { h.to_string() };
            let bs: Vec<u8> = (0..h.len() / 2).map(|k| u8::from_str_radix(&h[2 * k..2 * k + 2], 16).unwrap()).collect();
            quote::quote! { [#(#bs),*] }
        }
        other => quote::quote! { #other },
    };
    if n {
        quote::quote! { ::soroban_sdk::BytesN::from_array(#env, &#arr) }.into()
    } else {
        quote::quote! { ::soroban_sdk::Bytes::from_slice(#env, &#arr) }.into()
    }
}
#[proc_macro]
pub fn bytesn(input: TokenStream) -> TokenStream {
    bytes_lit(input, true)
}
#[proc_macro]
pub fn bytes(input: TokenStream) -> TokenStream {
    bytes_lit(input, false)
}
