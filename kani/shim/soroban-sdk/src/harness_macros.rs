//! `obl!` and the proof harnesses shared by every contract that derives Ownable / Operatable / Upgradable: the
//! derive-generated entry points are the repository's real ones (real derive crate, real
//! axelar-soroban-std); the harness is instantiated per contract type.

/// C06: ownership transfer needs the stored owner's authorisation and hands over to exactly the successor.
#[macro_export]
macro_rules! harness_ownable {
    ($T:ty, $tag:ident) => {
        #[kani::proof]
        fn $tag() {
            use $crate::shim::{self, inst, pers, Wordy, Words, OWNER_KEY};
            let env = $crate::Env::default();
            let _h = shim::fresh_host();
            let new_owner = <$crate::Address as Wordy>::symbolic();
            let seen_owner = <$T>::owner(&env);
            $crate::obl!(inst().pre::<_, $crate::Address>(&OWNER_KEY) == Some(seen_owner) && shim::no_effects(), "OBL C06.owner_view_agrees: owner() reports the stored role holder and changes nothing");

            <$T>::transfer_ownership(&env, new_owner.clone());

            let prev: Option<$crate::Address> = inst().pre(&OWNER_KEY);
            $crate::obl!(matches!(&prev, Some(p) if shim::authed(p)), "OBL C06.owner_transfer_needs_owner: ownership changes hands only under the authorisation of the owner stored at entry");
            $crate::obl!(inst().post::<_, $crate::Address>(&OWNER_KEY) == Some(new_owner.clone()), "OBL C06.owner_successor_exact: afterwards the role belongs to exactly the named successor");
            let prev_a = match prev {
                Some(p) => p,
                None => $crate::Address(0),
            };
            $crate::obl!(
                shim::n_events() >= 1
                    && shim::event_is(0, &($crate::Symbol::new(&env, "ownership_transferred"), prev_a, new_owner.clone()), &$crate::Vec::<$crate::Val>::new(&env)),
                "OBL C06.owner_transfer_event: the event names (previous owner, new owner)"
            );
            $crate::obl!(inst().changed_only(&[Words::of(&OWNER_KEY)]) && pers().n_changed() == 0 && shim::n_calls() == 0 && shim::n_deploys() == 0, "OBL C06.owner_transfer_frame: nothing but the owner entry changes, no call is made");
            kani::cover!(true, "COVER ownable transfer returned");
        }
    };
}

/// C06: operatorship transfer.
#[macro_export]
macro_rules! harness_operatable {
    ($T:ty, $tag:ident) => {
        #[kani::proof]
        fn $tag() {
            use $crate::shim::{self, inst, pers, Wordy, Words, OPERATOR_KEY};
            let env = $crate::Env::default();
            let _h = shim::fresh_host();
            let new_op = <$crate::Address as Wordy>::symbolic();
            let seen_op = <$T>::operator(&env);
            $crate::obl!(inst().pre::<_, $crate::Address>(&OPERATOR_KEY) == Some(seen_op) && shim::no_effects(), "OBL C06.operator_view_agrees: operator() reports the stored role holder and changes nothing");

            <$T>::transfer_operatorship(&env, new_op.clone());

            let prev: Option<$crate::Address> = inst().pre(&OPERATOR_KEY);
            $crate::obl!(matches!(&prev, Some(p) if shim::authed(p)), "OBL C06.operator_transfer_needs_operator: operatorship changes hands only under the authorisation of the operator stored at entry (not the owner)");
            $crate::obl!(inst().post::<_, $crate::Address>(&OPERATOR_KEY) == Some(new_op.clone()), "OBL C06.operator_successor_exact");
            let prev_a = match prev {
                Some(p) => p,
                None => $crate::Address(0),
            };
            $crate::obl!(
                shim::n_events() == 1
                    && shim::event_is(0, &($crate::Symbol::new(&env, "operatorship_transferred"), prev_a, new_op.clone()), &$crate::Vec::<$crate::Val>::new(&env)),
                "OBL C06.operator_transfer_event"
            );
            $crate::obl!(inst().changed_only(&[Words::of(&OPERATOR_KEY)]) && pers().n_changed() == 0 && shim::n_calls() == 0 && shim::n_deploys() == 0, "OBL C06.operator_transfer_frame: nothing but the operator entry changes, no call is made");
            kani::cover!(true, "COVER operatable transfer returned");
        }
    };
}

/// C15 / C06: upgrade and migrate through the derive-generated entry points.
#[macro_export]
macro_rules! harness_upgradable {
    ($T:ty, $E:ty, $up:ident, $mig:ident) => {
        #[kani::proof]
        fn $up() {
            use $crate::shim::{self, inst, pers, Wordy, Words, MIGRATING_KEY, OWNER_KEY};
            let env = $crate::Env::default();
            let _h = shim::fresh_host();
            let hash = <$crate::BytesN<32> as Wordy>::symbolic();

            <$T>::upgrade(&env, hash);

            let owner: Option<$crate::Address> = inst().pre(&OWNER_KEY);
            $crate::obl!(matches!(&owner, Some(p) if shim::authed(p)), "OBL C15.upgrade_needs_owner: the code is replaced only under the authorisation of the owner stored at entry");
            $crate::obl!(shim::n_wasm_updates() == 1 && shim::wasm_update_is(0, &hash), "OBL C15.upgrade_installs_requested_code: exactly one code update, to the requested hash");
            $crate::obl!(inst().post_has(&MIGRATING_KEY), "OBL C15.upgrade_opens_window: an upgrade opens the migration window");
            $crate::obl!(inst().changed_only(&[Words::of(&MIGRATING_KEY)]) && pers().n_changed() == 0 && shim::n_events() == 0 && shim::n_calls() == 0, "OBL C15.upgrade_frame");
            kani::cover!(true, "COVER upgrade returned");
        }
        #[kani::proof]
        fn $mig() {
            use $crate::shim::{self, inst, pers, Wordy, Words, MIGRATING_KEY, OWNER_KEY};
            let env = $crate::Env::default();
            let _h = shim::fresh_host();

            let r = <$T>::migrate(&env, ());

            let owner: Option<$crate::Address> = inst().pre(&OWNER_KEY);
            let open = inst().pre_has(&MIGRATING_KEY);
            match r {
                Ok(()) => {
                    $crate::obl!(matches!(&owner, Some(p) if shim::authed(p)), "OBL C15.migrate_needs_owner: a migration runs only under the authorisation of the owner stored at entry");
                    $crate::obl!(open, "OBL C15.migrate_needs_open_window: a migration runs only while the window opened by an upgrade is open");
                    $crate::obl!(!inst().post_has(&MIGRATING_KEY), "OBL C15.migrate_closes_window: so it can never run twice for one upgrade");
                    $crate::obl!(
                        shim::n_events() == 1 && shim::event_is(0, &($crate::symbol_short!("upgraded"),), &(<$T>::version(&env),)),
                        "OBL C15.migrate_announces_version: exactly one `upgraded` event carrying the contract's version"
                    );
                    $crate::obl!(inst().changed_only(&[Words::of(&MIGRATING_KEY)]) && pers().n_changed() == 0 && shim::n_calls() == 0 && shim::n_wasm_updates() == 0, "OBL C15.migrate_frame");
                    kani::cover!(true, "COVER migrate ok");
                }
                Err(e) => {
                    $crate::obl!(!open, "OBL C15.migrate_err_only_when_closed");
                    $crate::obl!($crate::Error::from(e) == $crate::Error::from(<$E>::MigrationNotAllowed), "OBL C15.migrate_err_code");
                    $crate::obl!(shim::no_effects(), "OBL C15.migrate_refused_no_effect");
                    kani::cover!(true, "COVER migrate err");
                }
            }
        }
    };
}

/// One named obligation.  Kani's `assert!` also *assumes* the condition afterwards, so a failing
/// obligation would hide every later obligation on the same path (a failing C04-obligation would mask a
/// C11-obligation written after it).  Checking each obligation on its own nondeterministic branch keeps
/// them independent: every obligation is decided whatever the others do.
#[macro_export]
macro_rules! obl {
    ($c:expr, $m:literal $(,)?) => {
        if $crate::shim::nondet::<bool>() {
            assert!($c, $m);
        }
    };
}
