//! Abstract-host shim of `soroban-sdk` 22 for Kani.
//!
//! This crate is the *assumed contract of the dependency*: it replaces the Soroban host with a small
//! symbolic model (DESIGN.md §2.2).  Everything in here is trusted; the axioms are listed in
//! `/verif/kani/AXIOMS.md` and echoed into every evidence file.
//!
//! * values: `Address`, `String`, `Bytes`, `Symbol`, `Val` are abstract identities (one u64 word);
//!   `BytesN<N>` is N bytes held as big-endian u64 words; every `#[contracttype]` has a fixed-width
//!   injective word encoding (`Wordy`).
//! * storage: association list, a key is materialised on first touch with a nondeterministic
//!   presence bit and value (lazy initialisation) and remembered as the *initial* value.
//! * auth: `require_auth` logs the address and traps unless the per-address oracle grants it.
//! * events / cross-contract calls / deployments: appended to logs, calls return fresh symbolic values.
//! * xdr / keccak: uninterpreted, injective on the terms of one run.
//! * a trap (host error, failed auth, `panic_with_error!`) is divergence: `assume(false)`.
#![allow(dead_code, unused_variables, static_mut_refs, clippy::all)]
extern crate self as soroban_sdk;
pub use soroban_sdk_macros::{bytes, bytesn, contract, contractclient, contracterror, contractimpl, contracttype};

pub mod shim;
mod harness_macros;
use shim::*;

// ------------------------------------------------------------------------------------------------
// Env, Error, conversion traits
// ------------------------------------------------------------------------------------------------
#[derive(Clone, Default, Debug, PartialEq, Eq)]
pub struct Env;

#[derive(Clone, Copy, Debug, PartialEq, Eq)]
pub struct Error(pub u32);
impl Error {
    pub fn from_contract_error(c: u32) -> Self {
        Error(c)
    }
    pub fn code(&self) -> u32 {
        self.0
    }
    pub fn get_code(&self) -> u32 {
        self.0
    }
    pub fn is_type(&self, _t: xdr::ScErrorType) -> bool {
        nondet()
    }
}

#[derive(Clone, Copy, Debug, PartialEq, Eq)]
pub struct ConversionError;
#[derive(Clone, Copy, Debug, PartialEq, Eq)]
pub enum InvokeError {
    Abort,
    Contract(u32),
}

/// The real trait converts to a host value; the shim additionally exposes the word encoding.
pub trait IntoVal<E, V> {
    fn into_val(&self, e: &E) -> V;
    #[doc(hidden)]
    fn shim_words(&self) -> Words;
}
pub trait TryFromVal<E, V>: Sized {
    type Error;
    fn try_from_val(e: &E, v: &V) -> Result<Self, Self::Error>;
}
pub trait FromVal<E, V>: Sized {
    fn from_val(e: &E, v: &V) -> Self;
}
impl<T: Wordy> IntoVal<Env, Val> for T {
    fn into_val(&self, _e: &Env) -> Val {
        harness_bug("into_val: not modelled")
    }
    fn shim_words(&self) -> Words {
        Words::of(self)
    }
}
/// tuple -> argument vector: an abstract vector identified by the tuple's encoding
impl<T: Wordy> IntoVal<Env, Vec<Val>> for T {
    fn into_val(&self, _e: &Env) -> Vec<Val> {
        Vec { items: [None, None, None, None], n: 0, abs: Some((T::NW as u32, intern(Words::of(self)))) }
    }
    fn shim_words(&self) -> Words {
        Words::of(self)
    }
}
impl<T: Wordy> TryFromVal<Env, Val> for T {
    type Error = ();
    fn try_from_val(_e: &Env, _v: &Val) -> Result<Self, ()> {
        harness_bug("try_from_val: not modelled")
    }
}
impl<T: Wordy> FromVal<Env, Val> for T {
    fn from_val(_e: &Env, _v: &Val) -> Self {
        harness_bug("from_val: not modelled")
    }
}
pub trait Topics: IntoVal<Env, Val> {}
impl<T: IntoVal<Env, Val>> Topics for T {}

pub mod unwrap {
    pub trait UnwrapOptimized {
        type Output;
        fn unwrap_optimized(self) -> Self::Output;
    }
    impl<T> UnwrapOptimized for Option<T> {
        type Output = T;
        fn unwrap_optimized(self) -> T {
            match self {
                Some(t) => t,
                None => crate::shim::trap(),
            }
        }
    }
}

// ------------------------------------------------------------------------------------------------
// abstract value types
// ------------------------------------------------------------------------------------------------
/// An opaque host value (only passed through by the contracts: operator call arguments/results,
/// migration data).
#[derive(Clone, Copy, Debug, PartialEq, Eq)]
pub struct Val(pub u64);
macro_rules! val_from {
    ($($t:ty => $tag:expr),*) => {$(
        /// small scalars convert to host values: an injective uninterpreted embedding
        impl From<$t> for Val {
            fn from(x: $t) -> Val {
                let mut w = Words::new();
                w.push(0x7A1_0000 + $tag);
                w.push(x as u64);
                Val(intern(w))
            }
        }
    )*};
}
val_from!(u32 => 1, i32 => 2, bool => 3);
impl From<()> for Val {
    fn from(_: ()) -> Val {
        Val(0)
    }
}
impl Wordy for Val {
    const NW: usize = 1;
    fn to_words(&self, out: &mut Words) {
        out.push(self.0)
    }
    fn from_words(r: &mut Reader) -> Self {
        Val(r.next())
    }
    fn symbolic() -> Self {
        Val(nondet())
    }
}

#[derive(Clone, Debug, PartialEq, Eq, PartialOrd, Ord)]
pub struct Address(pub u64);
impl Address {
    pub fn require_auth(&self) {
        log_auth(self.0);
        if !auth_granted(self.0) {
            trap();
        }
    }
    /// Authorisation of *custom* arguments instead of the invocation's own: it does not show that
    /// the address authorised this exact call, so it is logged separately (`shim::authed` ignores it).
    pub fn require_auth_for_args(&self, args: Vec<Val>) {
        log_auth_custom(self.0, Words::of(&args));
        if !auth_granted(self.0) {
            trap();
        }
    }
    /// In the real SDK this yields the same host value that the address converts to inside a
    /// tuple, so the identity is the faithful model.
    pub fn to_val(&self) -> Address {
        self.clone()
    }
    /// strkey -> address; injective (a strkey names one address).
    pub fn from_string(s: &String) -> Self {
        Address(s.id ^ 0x5a5a_0000_0000_0000)
    }
    /// address -> strkey: the inverse of `from_string`
    pub fn to_string(&self) -> String {
        String { id: self.0 ^ 0x5a5a_0000_0000_0000 }
    }
}
impl Wordy for Address {
    const NW: usize = 1;
    fn to_words(&self, out: &mut Words) {
        out.push(self.0)
    }
    fn from_words(r: &mut Reader) -> Self {
        Address(r.next())
    }
    fn symbolic() -> Self {
        Address(nondet())
    }
}

pub const fn fnv(s: &str) -> u64 {
    let b = s.as_bytes();
    let mut h: u64 = 0xcbf29ce484222325;
    let mut i = 0;
    while i < b.len() {
        h ^= b[i] as u64;
        h = h.wrapping_mul(0x100000001b3);
        i += 1;
    }
    h
}

/// A string is an abstract identity.  The empty string has id `EMPTY_ID`; `len()` is an
/// uninterpreted function of the identity that is zero exactly for the empty string.
#[derive(Clone, Debug, PartialEq, Eq, PartialOrd, Ord)]
pub struct String {
    pub id: u64,
}
pub const EMPTY_ID: u64 = 0;
impl String {
    pub fn from_str(_e: &Env, s: &str) -> Self {
        if s.is_empty() {
            return String { id: EMPTY_ID };
        }
        // a string whose content is registered (codec harnesses) keeps its identity
        if let Some(id) = lookup_content(s.as_bytes()) {
            return String { id };
        }
        String { id: fnv(s) | 1 }
    }
    /// harness side (codec harnesses): a string with concrete content
    pub fn with_content(s: &[u8]) -> Self {
        String { id: content_id(s) }
    }
    /// the string with exactly these bytes (same bytes <=> same identity, via the content table)
    pub fn from_bytes(_e: &Env, s: &[u8]) -> Self {
        String { id: content_id(s) }
    }
    pub fn len(&self) -> u32 {
        if has_content(self.id) {
            return content_len(self.id) as u32;
        }
        len_of(self.id)
    }
    pub fn is_empty(&self) -> bool {
        self.id == EMPTY_ID
    }
    pub fn to_val(&self) -> String {
        self.clone()
    }
    pub fn copy_into_slice(&self, out: &mut [u8]) {
        if !has_content(self.id) {
            harness_bug("String content is abstract: stub the caller by its contract");
        }
        let n = content_len(self.id);
        if n != out.len() {
            trap();
        }
        let mut i = 0;
        while i < n {
            out[i] = content_byte(self.id, i);
            i += 1;
        }
    }
}
impl Wordy for String {
    const NW: usize = 1;
    fn to_words(&self, out: &mut Words) {
        out.push(self.id);
    }
    fn from_words(r: &mut Reader) -> Self {
        String { id: r.next() }
    }
    fn symbolic() -> Self {
        String { id: nondet() }
    }
}
impl Wordy for &'static str {
    const NW: usize = 1;
    fn to_words(&self, out: &mut Words) {
        out.push(fnv(self) | 1)
    }
    fn from_words(_r: &mut Reader) -> Self {
        harness_bug("&str from words")
    }
    fn symbolic() -> Self {
        harness_bug("&str symbolic")
    }
}

#[derive(Clone, Debug, PartialEq, Eq, PartialOrd, Ord)]
pub struct Symbol(pub u64);
impl Symbol {
    pub fn new(_e: &Env, s: &str) -> Self {
        Symbol(fnv(s))
    }
    pub const fn short(s: &str) -> Self {
        Symbol(fnv(s))
    }
    pub fn to_val(&self) -> Symbol {
        self.clone()
    }
}
impl Wordy for Symbol {
    const NW: usize = 1;
    fn to_words(&self, out: &mut Words) {
        out.push(self.0)
    }
    fn from_words(r: &mut Reader) -> Self {
        Symbol(r.next())
    }
    fn symbolic() -> Self {
        Symbol(nondet())
    }
}

/// Byte strings are abstract identities too (the contracts hash, forward and compare them).
/// `Bytes` built from fixed-size chunks (`From<BytesN>`, `extend_from_array`) get an injective
/// identity of their chunk list.  Content-level access (`to_alloc_vec`, `from_slice`) only works
/// for byte strings registered in the content table (codec harnesses).
#[derive(Clone, Debug, PartialEq, Eq, PartialOrd, Ord)]
pub struct Bytes {
    pub id: u64,
}
impl Bytes {
    pub fn new(_e: &Env) -> Self {
        Bytes { id: EMPTY_ID }
    }
    pub fn len(&self) -> u32 {
        if has_content(self.id) {
            return content_len(self.id) as u32;
        }
        len_of(self.id)
    }
    pub fn is_empty(&self) -> bool {
        self.id == EMPTY_ID
    }
    pub fn to_val(&self) -> Bytes {
        self.clone()
    }
    pub fn extend_from_array<const N: usize>(&mut self, a: &[u8; N]) {
        let mut w = Words::new();
        w.push(0xC0DE_CA7);
        w.push(self.id);
        let b = BytesN::<N>::from_array(&Env, a);
        b.to_words(&mut w);
        self.id = intern(w);
    }
    pub fn from_slice(_e: &Env, s: &[u8]) -> Self {
        Bytes { id: content_id(s) }
    }
    /// sub-string: the whole range is the string itself; any other range is an uninterpreted
    /// (NOT injective) function of (string, start, end): nothing is known about it except that the
    /// same range of the same string is the same byte string
    pub fn slice(&self, r: impl core::ops::RangeBounds<u32>) -> Bytes {
        use core::ops::Bound::*;
        let start = match r.start_bound() {
            Included(a) => *a,
            Excluded(a) => *a + 1,
            Unbounded => 0,
        };
        let end = match r.end_bound() {
            Included(a) => *a + 1,
            Excluded(a) => *a,
            Unbounded => self.len(),
        };
        if start > end || end > self.len() {
            trap();
        }
        if start == 0 && end == self.len() {
            return self.clone();
        }
        if start == end {
            return Bytes { id: EMPTY_ID };
        }
        let mut w = Words::new();
        w.push(0x511CE);
        w.push(self.id);
        w.push(start as u64);
        w.push(end as u64);
        Bytes { id: uf(w) }
    }
    /// content in a fixed stack buffer: traps if it does not fit; abstract content is handed out like
    /// `to_alloc_vec` does (identity parked for a contract stub, never silently "empty" for real code)
    pub fn to_buffer<const N: usize>(&self) -> BytesBuffer<N> {
        if self.len() as usize > N {
            trap();
        }
        let v = self.to_alloc_vec();
        let mut buf = [0u8; N];
        let mut i = 0;
        while i < v.len() && i < N {
            buf[i] = v[i];
            i += 1;
        }
        BytesBuffer { buf, len: v.len() }
    }
    pub fn get(&self, i: u32) -> Option<u8> {
        if i >= self.len() {
            return None;
        }
        if self.id != EMPTY_ID && has_content(self.id) {
            return content_of(self.id).get(i as usize).copied();
        }
        harness_bug("Bytes content is abstract: stub the caller by its contract")
    }
    pub fn append(&mut self, other: &Bytes) {
        if other.id == EMPTY_ID {
            return;
        }
        if self.id == EMPTY_ID {
            self.id = other.id;
            return;
        }
        let mut w = Words::new();
        w.push(0xA99E_4D);
        w.push(self.id);
        w.push(other.id);
        self.id = uf(w); // variable-length concatenation is not injective: see shim::uf
    }
    pub fn push_back(&mut self, b: u8) {
        let mut w = Words::new();
        w.push(0x9054_BAC);
        w.push(self.id);
        w.push(b as u64);
        self.id = uf(w);
    }
    /// Content of the byte string.  For an *abstract* byte string the content is unknown: an empty
    /// vector is handed out and the identity is parked in `shim::ABSTRACT_CONTENT_TAKEN`; only a
    /// contract stub (which speaks about the identity, not the content) may consume it — a harness
    /// ends with `shim::no_dangling_abstract_content()`, so real code inspecting such a vector is
    /// flagged instead of silently seeing "empty".
    pub fn to_alloc_vec(&self) -> std::vec::Vec<u8> {
        if has_content(self.id) {
            content_of(self.id)
        } else {
            unsafe { ABSTRACT_CONTENT_TAKEN = Some(self.id) };
            std::vec::Vec::new()
        }
    }
}
pub struct BytesBuffer<const N: usize> {
    buf: [u8; N],
    len: usize,
}
impl<const N: usize> BytesBuffer<N> {
    pub fn as_slice(&self) -> &[u8] {
        &self.buf[..self.len]
    }
}
impl Wordy for Bytes {
    const NW: usize = 1;
    fn to_words(&self, out: &mut Words) {
        out.push(self.id);
    }
    fn from_words(r: &mut Reader) -> Self {
        Bytes { id: r.next() }
    }
    fn symbolic() -> Self {
        Bytes { id: nondet() }
    }
}

/// N bytes held as big-endian u64 words (lexicographic word order == lexicographic byte order).
#[derive(Clone, Copy, Debug, PartialEq, Eq, PartialOrd, Ord)]
pub struct BytesN<const N: usize>(pub [u64; 8]);
impl<const N: usize> BytesN<N> {
    pub fn from_array(_e: &Env, a: &[u8; N]) -> Self {
        let mut w = [0u64; 8];
        let mut i = 0;
        while i < N {
            w[i / 8] |= (a[i] as u64) << (8 * (7 - (i % 8)));
            i += 1;
        }
        BytesN(w)
    }
    pub fn to_array(&self) -> [u8; N] {
        let mut a = [0u8; N];
        let mut i = 0;
        while i < N {
            a[i] = (self.0[i / 8] >> (8 * (7 - (i % 8)))) as u8;
            i += 1;
        }
        a
    }
    pub fn to_val(&self) -> BytesN<N> {
        *self
    }
}
impl<const N: usize> From<BytesN<N>> for [u8; N] {
    fn from(b: BytesN<N>) -> [u8; N] {
        b.to_array()
    }
}
impl<const N: usize> From<BytesN<N>> for Bytes {
    fn from(b: BytesN<N>) -> Bytes {
        let mut w = Words::new();
        w.push(0xC0DE_CA7);
        w.push(EMPTY_ID);
        b.to_words(&mut w);
        Bytes { id: intern(w) }
    }
}
impl<const N: usize> AsRef<Bytes> for BytesN<N> {
    fn as_ref(&self) -> &Bytes {
        Box::leak(Box::new(Bytes::from(*self)))
    }
}
impl<const N: usize> Wordy for BytesN<N> {
    const NW: usize = N / 8;
    fn to_words(&self, out: &mut Words) {
        let mut i = 0;
        while i < N / 8 {
            out.push(self.0[i]);
            i += 1;
        }
    }
    fn from_words(r: &mut Reader) -> Self {
        let mut w = [0u64; 8];
        let mut i = 0;
        while i < N / 8 {
            w[i] = r.next();
            i += 1;
        }
        BytesN(w)
    }
    fn symbolic() -> Self {
        let mut w = [0u64; 8];
        let mut i = 0;
        while i < N / 8 {
            w[i] = nondet();
            i += 1;
        }
        BytesN(w)
    }
}

/// A host vector.  Either *concrete* (a real list of at most `VCAP` items held inline — no heap, so
/// loops over it unwind concretely) or *abstract* (`abs = Some((len, id))`: unknown content of unknown
/// length, identified by `id`) — the verified code may pass an abstract vector around, hash or
/// serialise it, and ask its length, but any access to its content is flagged as an unmodelled
/// operation (never silently accepted).  This is what makes proofs about signer sets independent of
/// the set's size.
pub const VCAP: usize = 4;
#[derive(Clone, Debug, PartialEq, Eq)]
pub struct Vec<T> {
    pub items: [Option<T>; VCAP],
    pub n: usize,
    pub abs: Option<(u32, u64)>,
}
pub struct VecIter<T> {
    items: [Option<T>; VCAP],
    i: usize,
    n: usize,
}
impl<T> Iterator for VecIter<T> {
    type Item = T;
    fn next(&mut self) -> Option<T> {
        if self.i < self.n {
            let x = self.items[self.i].take();
            self.i += 1;
            x
        } else {
            None
        }
    }
}
impl<T> Vec<T> {
    pub fn new(_e: &Env) -> Self {
        Vec { items: [None, None, None, None], n: 0, abs: None }
    }
    /// harness side: a vector of arbitrary length and content
    pub fn abstract_symbolic() -> Self {
        Vec { items: [None, None, None, None], n: 0, abs: Some((nondet(), nondet())) }
    }
    fn concrete(&self) {
        if self.abs.is_some() {
            harness_bug("content access to an abstract Vec: the callee must be stubbed by its contract");
        }
    }
    pub fn env(&self) -> &Env {
        &Env
    }
    pub fn is_empty(&self) -> bool {
        self.len() == 0
    }
    pub fn len(&self) -> u32 {
        match self.abs {
            Some((l, _)) => l,
            None => self.n as u32,
        }
    }
    pub fn push_back(&mut self, t: T) {
        self.concrete();
        if self.n >= VCAP {
            harness_bug("Vec capacity");
        }
        self.items[self.n] = Some(t);
        self.n += 1;
    }
}
impl<T: Clone> Vec<T> {
    pub fn get(&self, i: u32) -> Option<T> {
        self.concrete();
        if (i as usize) < self.n {
            self.items[i as usize].clone()
        } else {
            None
        }
    }
    pub fn iter(&self) -> VecIter<T> {
        self.concrete();
        VecIter { items: self.items.clone(), i: 0, n: self.n }
    }
    pub fn first(&self) -> Option<T> {
        self.get(0)
    }
    pub fn last(&self) -> Option<T> {
        self.concrete();
        if self.n == 0 {
            None
        } else {
            self.items[self.n - 1].clone()
        }
    }
}
impl<T> IntoIterator for Vec<T> {
    type Item = T;
    type IntoIter = VecIter<T>;
    fn into_iter(self) -> Self::IntoIter {
        self.concrete();
        VecIter { items: self.items, i: 0, n: self.n }
    }
}
impl<T: Wordy> Wordy for Vec<T> {
    const NW: usize = 2;
    fn to_words(&self, out: &mut Words) {
        if let Some((l, id)) = self.abs {
            out.push(l as u64);
            out.push(id);
            return;
        }
        // injective chain: h0 = 0, h_{i+1} = intern(h_i ‖ words(item_i))
        let mut h: u64 = 0;
        let mut i = 0;
        while i < self.n {
            if let Some(t) = &self.items[i] {
                let mut w = Words::new();
                w.push(0x5EC_0001);
                w.push(h);
                t.to_words(&mut w);
                h = intern(w);
            }
            i += 1;
        }
        out.push(self.n as u64);
        out.push(h);
    }
    fn from_words(_r: &mut Reader) -> Self {
        harness_bug("Vec from words")
    }
    fn symbolic() -> Self {
        Vec { items: [None, None, None, None], n: 0, abs: Some((nondet(), nondet())) }
    }
}

// ------------------------------------------------------------------------------------------------
// env services
// ------------------------------------------------------------------------------------------------
pub struct Storage;
pub struct Instance;
pub struct Persistent;
pub struct Temporary;
impl Env {
    pub fn storage(&self) -> Storage {
        Storage
    }
    pub fn crypto(&self) -> crypto::Crypto {
        crypto::Crypto
    }
    pub fn ledger(&self) -> Ledger {
        Ledger
    }
    pub fn events(&self) -> Events {
        Events
    }
    pub fn deployer(&self) -> Deployer {
        Deployer
    }
    pub fn current_contract_address(&self) -> Address {
        Address(host().current)
    }
    /// A failing callee traps the caller (axiom A-CALL), so only the successful return is modelled.
    pub fn invoke_contract<T: Wordy>(&self, contract: &Address, func: &Symbol, args: Vec<Val>) -> T {
        invoke_id::<T>(contract, func.0, Words::of(&args))
    }
    /// The non-trapping variant (the callee's failure is handed back): logged under a different
    /// function identity than `invoke_contract`, outcome nondeterministic.
    pub fn try_invoke_contract<T: Wordy, E>(&self, contract: &Address, func: &Symbol, args: Vec<Val>) -> Result<Result<T, ConversionError>, Result<E, InvokeError>> {
        let r = invoke_id::<T>(contract, func.0 ^ 0x7472_795f_0000_0000, Words::of(&args));
        if nondet::<bool>() {
            Ok(Ok(r))
        } else {
            Err(Err(InvokeError::Abort))
        }
    }
}
impl Storage {
    pub fn instance(&self) -> Instance {
        Instance
    }
    pub fn persistent(&self) -> Persistent {
        Persistent
    }
    pub fn temporary(&self) -> Temporary {
        Temporary
    }
}
macro_rules! storage_impl {
    ($t:ident, $f:ident) => {
        impl $t {
            pub fn get<K: IntoVal<Env, Val>, V: Wordy>(&self, key: &K) -> Option<V> {
                host().$f.get::<V>(&key.shim_words())
            }
            pub fn has<K: IntoVal<Env, Val>>(&self, key: &K) -> bool {
                host().$f.has(&key.shim_words())
            }
            pub fn set<K: IntoVal<Env, Val>, V: IntoVal<Env, Val>>(&self, key: &K, val: &V) {
                host().$f.set(&key.shim_words(), &val.shim_words())
            }
            pub fn remove<K: IntoVal<Env, Val>>(&self, key: &K) {
                host().$f.remove(&key.shim_words())
            }
            pub fn update<K: IntoVal<Env, Val>, V: Wordy>(&self, key: &K, f: impl FnOnce(Option<V>) -> V) -> V {
                let k = key.shim_words();
                let v = f(host().$f.get::<V>(&k));
                host().$f.set(&k, &Words::of(&v));
                v
            }
        }
    };
}
storage_impl!(Instance, instance);
storage_impl!(Persistent, persistent);
storage_impl!(Temporary, temporary);
impl Storage {
    /// the network's maximum entry lifetime: an arbitrary value, fixed during a run
    pub fn max_ttl(&self) -> u32 {
        host().max_ttl
    }
}
// TTL / archival is not modelled (axiom A-TTL): entries never vanish.
impl Instance {
    pub fn extend_ttl(&self, _a: u32, _b: u32) {}
}
impl Persistent {
    pub fn extend_ttl<K: IntoVal<Env, Val>>(&self, _k: &K, _a: u32, _b: u32) {}
}
impl Temporary {
    /// Expiry itself is not modelled (A-TTL), but the request is recorded: a contract that promises an
    /// entry to live until some ledger must ask for at least that lifetime.
    pub fn extend_ttl<K: IntoVal<Env, Val>>(&self, k: &K, threshold: u32, extend_to: u32) {
        log_temp_ttl(k.shim_words(), threshold, extend_to);
    }
}

pub struct Ledger;
impl Ledger {
    pub fn timestamp(&self) -> u64 {
        host().timestamp
    }
    pub fn sequence(&self) -> u32 {
        host().sequence
    }
}
pub struct Events;
impl Events {
    pub fn publish<T: Topics, D: IntoVal<Env, Val>>(&self, topics: T, data: D) {
        log_event(topics.shim_words(), data.shim_words());
    }
}

pub mod crypto {
    use super::*;
    pub struct Crypto;
    #[derive(Clone, Copy, Debug, PartialEq, Eq)]
    pub struct Hash<const N: usize>(pub BytesN<N>);
    impl<const N: usize> Hash<N> {
        pub fn to_bytes(&self) -> BytesN<N> {
            self.0
        }
        pub fn to_array(&self) -> [u8; N] {
            self.0.to_array()
        }
    }
    impl<const N: usize> From<Hash<N>> for BytesN<N> {
        fn from(h: Hash<N>) -> Self {
            h.0
        }
    }
    impl<const N: usize> Wordy for Hash<N> {
        const NW: usize = N / 8;
        fn to_words(&self, out: &mut Words) {
            self.0.to_words(out)
        }
        fn from_words(r: &mut Reader) -> Self {
            Hash(BytesN::from_words(r))
        }
        fn symbolic() -> Self {
            Hash(BytesN::symbolic())
        }
    }
    impl Crypto {
        /// Uninterpreted; collision-free on the inputs seen in one run (axiom A-KECCAK-CR).
        pub fn keccak256(&self, b: &Bytes) -> Hash<32> {
            Hash(keccak_of(b.id))
        }
        /// Traps unless the uninterpreted `sig_valid(pk,msg,sig)` holds (axiom A-ED25519).
        pub fn ed25519_verify(&self, pk: &BytesN<32>, msg: &Bytes, sig: &BytesN<64>) {
            if !sig_valid(pk, msg, sig) {
                trap()
            }
        }
    }
}

pub mod xdr {
    use super::*;
    #[derive(Clone, Copy, Debug, PartialEq, Eq)]
    pub enum ScErrorType {
        Contract,
        WasmVm,
        Context,
        Storage,
        Object,
        Crypto,
        Events,
        Budget,
        Value,
        Auth,
    }
    pub trait ToXdr {
        fn to_xdr(self, e: &Env) -> Bytes;
    }
    impl<T: Wordy> ToXdr for T {
        /// Uninterpreted injective serialisation (axiom A-XDR-INJ).
        fn to_xdr(self, _e: &Env) -> Bytes {
            Bytes { id: xdr_of(Words::of(&self)) }
        }
    }
    pub trait FromXdr: Sized {
        type Error;
        fn from_xdr(e: &Env, b: &Bytes) -> Result<Self, Self::Error>;
    }
    impl<T: Wordy> FromXdr for T {
        type Error = ();
        /// Partial inverse of `to_xdr`: `Ok(v)` only if `to_xdr(v) == b`.
        fn from_xdr(_e: &Env, b: &Bytes) -> Result<Self, ()> {
            if nondet::<bool>() {
                let v = T::symbolic();
                assume(xdr_of(Words::of(&v)) == b.id);
                Ok(v)
            } else {
                Err(())
            }
        }
    }
}

pub struct Deployer;
pub struct DeployerWithAddress {
    pub address: Address,
    pub salt: BytesN<32>,
}
impl Deployer {
    pub fn update_current_contract_wasm(&self, h: BytesN<32>) {
        log_wasm_update(h);
    }
    pub fn with_address(&self, address: Address, salt: impl Into<BytesN<32>>) -> DeployerWithAddress {
        DeployerWithAddress { address, salt: salt.into() }
    }
}
impl DeployerWithAddress {
    /// The deployed address is an injective function of (deployer, salt); deploying to an occupied
    /// address traps; the constructor call is logged (axiom A-DEPLOY).
    pub fn deployed_address(&self) -> Address {
        let mut w = Words::new();
        w.push(0xDE9_10);
        w.push(self.address.0);
        self.salt.to_words(&mut w);
        Address(intern(w))
    }
    pub fn deploy_v2<A: IntoVal<Env, Val>>(&self, wasm_hash: impl Into<BytesN<32>>, constructor_args: A) -> Address {
        let a = self.deployed_address();
        if address_occupied(a.0) {
            trap();
        }
        set_address_occupied(a.0);
        log_deploy(self.address.0, self.salt, wasm_hash.into(), a.0, constructor_args.shim_words());
        a
    }
}

pub mod token {
    use super::*;
    pub use TokenClient as Client;
    pub use TokenInterface as Interface;
    #[contractclient(name = "TokenClient")]
    pub trait TokenInterface {
        fn allowance(env: Env, from: Address, spender: Address) -> i128;
        fn approve(env: Env, from: Address, spender: Address, amount: i128, expiration_ledger: u32);
        fn balance(env: Env, id: Address) -> i128;
        fn transfer(env: Env, from: Address, to: Address, amount: i128);
        fn transfer_from(env: Env, spender: Address, from: Address, to: Address, amount: i128);
        fn burn(env: Env, from: Address, amount: i128);
        fn burn_from(env: Env, spender: Address, from: Address, amount: i128);
        fn decimals(env: Env) -> u32;
        fn name(env: Env) -> String;
        fn symbol(env: Env) -> String;
    }
    #[contractclient(name = "StellarAssetClient")]
    pub trait StellarAssetInterface {
        fn set_admin(env: Env, new_admin: Address);
        fn admin(env: Env) -> Address;
        fn set_authorized(env: Env, id: Address, authorize: bool);
        fn authorized(env: Env, id: Address) -> bool;
        fn mint(env: Env, to: Address, amount: i128);
        fn clawback(env: Env, from: Address, amount: i128);
    }
}

#[macro_export]
macro_rules! symbol_short {
    ($s:literal) => {
        $crate::Symbol::short($s)
    };
}
#[macro_export]
macro_rules! panic_with_error {
    ($env:expr, $e:expr) => {{
        let _ = &$env;
        let _ = $crate::Error::from($e);
        $crate::shim::trap()
    }};
}
#[macro_export]
macro_rules! assert_with_error {
    ($env:expr, $c:expr, $e:expr) => {{
        if !($c) {
            $crate::panic_with_error!($env, $e)
        }
    }};
}

// `vec!` / `log!` of the real SDK (kept last: macro_rules scoping is textual, so std's `vec!` stays visible above)
#[macro_export]
macro_rules! vec {
    ($env:expr $(,)?) => {
        $crate::Vec::new($env)
    };
    ($env:expr, $($x:expr),+ $(,)?) => {{
        let mut v = $crate::Vec::new($env);
        $( v.push_back($x); )+
        v
    }};
}
#[macro_export]
macro_rules! log {
    ($env:expr, $($t:tt)*) => {{
        let _ = &$env;
    }};
}
