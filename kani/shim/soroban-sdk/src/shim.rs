//! Symbolic host state, word encodings, uninterpreted functions and the harness-side API.
#![allow(dead_code, static_mut_refs)]

pub const W: usize = 16;

#[derive(Clone, Copy, Debug)]
pub struct Words {
    pub w: [u64; W],
    pub n: usize,
}
impl PartialEq for Words {
    // one expression (no loop): keeps the model checker's program small
    fn eq(&self, o: &Words) -> bool {
        let (a, b) = (&self.w, &o.w);
        // `&` not `&&`: branch-free
        (a[0] == b[0]) & (a[1] == b[1]) & (a[2] == b[2]) & (a[3] == b[3]) & (a[4] == b[4]) & (a[5] == b[5]) & (a[6] == b[6]) & (a[7] == b[7])
            & (a[8] == b[8]) & (a[9] == b[9]) & (a[10] == b[10]) & (a[11] == b[11]) & (a[12] == b[12]) & (a[13] == b[13]) & (a[14] == b[14]) & (a[15] == b[15])
    }
}
impl Eq for Words {}
impl Words {
    pub const fn new() -> Self {
        Words { w: [0; W], n: 0 }
    }
    pub fn push(&mut self, x: u64) {
        if self.n >= W {
            harness_bug("Words capacity");
        }
        self.w[self.n] = x;
        self.n += 1;
    }
    /// pad with zeros up to cursor position `to`; robust to a cursor that became symbolic after a
    /// branch (fixed trip count, guarded writes)
    pub fn pad_to(&mut self, to: usize) {
        if to > W {
            harness_bug("Words capacity");
        }
        let mut i = 0;
        while i < W {
            let z = (i >= self.n) & (i < to);
            self.w[i] = sel(z, 0, self.w[i]);
            i += 1;
        }
        self.n = to;
    }
    pub fn of<T: Wordy>(t: &T) -> Self {
        let mut w = Words::new();
        t.to_words(&mut w);
        w
    }
    /// branch-free `if c { a } else { b }` (cursor taken from `a`)
    pub fn select(c: bool, a: &Words, b: &Words) -> Words {
        let mut r = Words::new();
        let mut i = 0;
        while i < W {
            r.w[i] = sel(c, a.w[i], b.w[i]);
            i += 1;
        }
        r.n = a.n;
        r
    }
}
// Branch-free selection: symbolic `if`s inside the host model would fork and re-merge the whole
// symbolic state at every storage access; masks keep the model straight-line.
#[inline(always)]
pub fn sel(c: bool, a: u64, b: u64) -> u64 {
    let k = (c as u64).wrapping_neg();
    (a & k) | (b & !k)
}
#[inline(always)]
pub fn sel32(c: bool, a: u32, b: u32) -> u32 {
    let k = (c as u32).wrapping_neg();
    (a & k) | (b & !k)
}
#[inline(always)]
pub fn selz(c: bool, a: usize, b: usize) -> usize {
    let k = (c as usize).wrapping_neg();
    (a & k) | (b & !k)
}
#[inline(always)]
pub fn selb(c: bool, a: bool, b: bool) -> bool {
    (c & a) | (!c & b)
}
pub struct Reader<'a> {
    pub w: &'a Words,
    pub i: usize,
}
impl<'a> Reader<'a> {
    pub fn next(&mut self) -> u64 {
        let x = self.w.w[self.i];
        self.i += 1;
        x
    }
}
/// Fixed-width injective word encoding of a host-representable value.
pub trait Wordy: Sized {
    const NW: usize;
    fn to_words(&self, out: &mut Words);
    fn from_words(r: &mut Reader) -> Self;
    fn symbolic() -> Self;
    fn read(w: &Words) -> Self {
        let mut r = Reader { w, i: 0 };
        Self::from_words(&mut r)
    }
}

#[cfg(kani)]
pub fn nondet<T: kani::Arbitrary>() -> T {
    kani::any()
}
#[cfg(not(kani))]
pub fn nondet<T>() -> T {
    unimplemented!("nondet outside kani")
}
pub fn nondet_below(n: u64) -> u64 {
    let x: u64 = nondet();
    assume(x < n);
    x
}
#[cfg(kani)]
pub fn assume(b: bool) {
    kani::assume(b)
}
#[cfg(not(kani))]
pub fn assume(b: bool) {
    assert!(b)
}
/// A host trap: the invocation aborts and is rolled back (axiom A-ROLLBACK).  Modelled as
/// divergence; in no-trap mode (completeness obligations) reaching a trap is itself a failure.
pub fn trap() -> ! {
    if unsafe { NO_TRAP_MODE } {
        #[cfg(kani)]
        kani::assert(false, "OBL no_trap: a host trap is reachable under the honest-input precondition");
    }
    assume(false);
    loop {}
}
pub static mut NO_TRAP_MODE: bool = false;
pub fn set_no_trap_mode() {
    unsafe { NO_TRAP_MODE = true }
}
pub const fn cmax(a: usize, b: usize) -> usize {
    if a > b {
        a
    } else {
        b
    }
}
/// A limitation of the harness/shim (capacity, unmodelled operation) — never a property verdict.
pub fn harness_bug(_msg: &'static str) -> ! {
    #[cfg(kani)]
    kani::assert(false, "HARNESS-BUG: shim capacity or unmodelled operation reached");
    assume(false);
    loop {}
}

macro_rules! prim {
    ($($t:ty),*) => {$(
        impl Wordy for $t {
            const NW: usize = 1;
            fn to_words(&self, out: &mut Words) { out.push(*self as u64); }
            fn from_words(r: &mut Reader) -> Self { r.next() as $t }
            fn symbolic() -> Self { nondet() }
        }
    )*};
}
prim!(u8, u32, u64, i32, i64);
impl Wordy for bool {
    const NW: usize = 1;
    fn to_words(&self, out: &mut Words) {
        out.push(*self as u64);
    }
    fn from_words(r: &mut Reader) -> Self {
        r.next() != 0
    }
    fn symbolic() -> Self {
        nondet()
    }
}
impl Wordy for () {
    const NW: usize = 0;
    fn to_words(&self, _out: &mut Words) {}
    fn from_words(_r: &mut Reader) -> Self {}
    fn symbolic() -> Self {}
}
impl Wordy for u128 {
    const NW: usize = 2;
    fn to_words(&self, out: &mut Words) {
        out.push(*self as u64);
        out.push((*self >> 64) as u64);
    }
    fn from_words(r: &mut Reader) -> Self {
        let lo = r.next() as u128;
        let hi = r.next() as u128;
        lo | (hi << 64)
    }
    fn symbolic() -> Self {
        nondet()
    }
}
impl Wordy for i128 {
    const NW: usize = 2;
    fn to_words(&self, out: &mut Words) {
        (*self as u128).to_words(out)
    }
    fn from_words(r: &mut Reader) -> Self {
        u128::from_words(r) as i128
    }
    fn symbolic() -> Self {
        nondet()
    }
}
impl<T: Wordy> Wordy for Option<T> {
    const NW: usize = 1 + T::NW;
    fn to_words(&self, out: &mut Words) {
        let start = out.n;
        match self {
            None => out.push(0),
            Some(t) => {
                out.push(1);
                t.to_words(out)
            }
        }
        out.pad_to(start + Self::NW);
    }
    fn from_words(r: &mut Reader) -> Self {
        let start = r.i;
        let v = if r.next() == 0 { None } else { Some(T::from_words(r)) };
        r.i = start + Self::NW;
        v
    }
    fn symbolic() -> Self {
        if nondet::<bool>() {
            Some(T::symbolic())
        } else {
            None
        }
    }
}
impl<T: Wordy> Wordy for &T {
    const NW: usize = T::NW;
    fn to_words(&self, out: &mut Words) {
        (*self).to_words(out)
    }
    fn from_words(_r: &mut Reader) -> Self {
        harness_bug("&T from words")
    }
    fn symbolic() -> Self {
        harness_bug("&T symbolic")
    }
}
macro_rules! tuple_wordy {
    ($($n:ident),+) => {
        impl<$($n: Wordy),+> Wordy for ($($n,)+) {
            const NW: usize = 0 $(+ $n::NW)+;
            #[allow(non_snake_case)]
            fn to_words(&self, out: &mut Words) { let ($($n,)+) = self; $( $n.to_words(out); )+ }
            fn from_words(r: &mut Reader) -> Self { ($( $n::from_words(r), )+) }
            fn symbolic() -> Self { ($( $n::symbolic(), )+) }
        }
    };
}
tuple_wordy!(A);
tuple_wordy!(A, B);
tuple_wordy!(A, B, C);
tuple_wordy!(A, B, C, D);
tuple_wordy!(A, B, C, D, E);
tuple_wordy!(A, B, C, D, E, F);
tuple_wordy!(A, B, C, D, E, F, G);
tuple_wordy!(A, B, C, D, E, F, G, H);
tuple_wordy!(A, B, C, D, E, F, G, H, I);

// ------------------------------------------------------------------------------------------------
// host state
// ------------------------------------------------------------------------------------------------
// Performance note: every table below is an *append-only access log with concrete length*: each
// access appends one slot (marked `valid` only if no earlier valid slot has the same key), so slot
// indices and loop bounds stay concrete for the model checker even when keys may alias
// symbolically; all reads/updates are guarded scalar operations over the concrete slots.
pub const CAP: usize = 16;
/// storage keys and values are at most SW words wide
pub const SW: usize = 6;

/// Six words as scalar fields; every operation is a single expression (no loops, no indexing).
#[derive(Clone, Copy, Debug)]
pub struct Short(pub u64, pub u64, pub u64, pub u64, pub u64, pub u64);
impl Short {
    pub const fn zero() -> Self {
        Short(0, 0, 0, 0, 0, 0)
    }
    pub fn of(x: &Words) -> Self {
        if x.n > SW {
            harness_bug("storage key/value wider than SW words");
        }
        Short(x.w[0], x.w[1], x.w[2], x.w[3], x.w[4], x.w[5])
    }
    pub fn symbolic() -> Self {
        Short(nondet(), nondet(), nondet(), nondet(), nondet(), nondet())
    }
    pub fn eq(&self, o: &Short) -> bool {
        (self.0 == o.0) & (self.1 == o.1) & (self.2 == o.2) & (self.3 == o.3) & (self.4 == o.4) & (self.5 == o.5)
    }
    pub fn eq_prefix(&self, o: &Short, n: usize) -> bool {
        ((n < 1) | (self.0 == o.0)) & ((n < 2) | (self.1 == o.1)) & ((n < 3) | (self.2 == o.2)) & ((n < 4) | (self.3 == o.3)) & ((n < 5) | (self.4 == o.4)) & ((n < 6) | (self.5 == o.5))
    }
    pub fn widen(&self) -> Words {
        let mut x = Words::new();
        x.w[0] = self.0;
        x.w[1] = self.1;
        x.w[2] = self.2;
        x.w[3] = self.3;
        x.w[4] = self.4;
        x.w[5] = self.5;
        x.n = SW;
        x
    }
    pub fn select(c: bool, a: Short, b: Short) -> Short {
        Short(sel(c, a.0, b.0), sel(c, a.1, b.1), sel(c, a.2, b.2), sel(c, a.3, b.3), sel(c, a.4, b.4), sel(c, a.5, b.5))
    }
}

pub struct Map {
    /// number of slots in use (always concrete)
    pub n: usize,
    pub key: [Short; CAP],
    /// this slot is the canonical one for its key
    pub valid: [bool; CAP],
    pub init_present: [bool; CAP],
    pub init: [Short; CAP],
    pub present: [bool; CAP],
    pub val: [Short; CAP],
    /// number of words of the last value written
    pub val_n: [usize; CAP],
    pub written: [bool; CAP],
    /// global sequence number of the first write (u32::MAX if none)
    pub first_write_seq: [u32; CAP],
    /// harness choice: the storage class starts EMPTY (a freshly constructed contract) instead of in an
    /// arbitrary state
    pub starts_empty: bool,
}
impl Map {
    pub const fn new() -> Self {
        Map {
            n: 0,
            key: [Short::zero(); CAP],
            valid: [false; CAP],
            init_present: [false; CAP],
            init: [Short::zero(); CAP],
            present: [false; CAP],
            val: [Short::zero(); CAP],
            val_n: [0; CAP],
            written: [false; CAP],
            first_write_seq: [u32::MAX; CAP],
            starts_empty: false,
        }
    }
    /// Materialise `key` lazily; returns the mask selecting its canonical slot.  Branch-free.
    pub fn touch(&mut self, key: &Words) -> [bool; CAP] {
        let k = Short::of(key);
        let mut hit = [false; CAP];
        let mut any = false;
        let mut i = 0;
        while i < self.n {
            let h = self.valid[i] & self.key[i].eq(&k);
            hit[i] = h;
            any = any | h;
            i += 1;
        }
        if self.n >= CAP {
            harness_bug("Map capacity");
        }
        let j = self.n;
        let p: bool = if self.starts_empty { false } else { nondet() };
        let v = Short::symbolic();
        self.key[j] = k;
        self.valid[j] = !any;
        self.init_present[j] = p;
        self.init[j] = v;
        self.present[j] = p;
        self.val[j] = v;
        self.val_n[j] = 0;
        self.written[j] = false;
        self.first_write_seq[j] = u32::MAX;
        hit[j] = !any;
        self.n += 1;
        hit
    }
    fn sel_bool(&self, hit: &[bool; CAP], a: &[bool; CAP]) -> bool {
        let mut r = false;
        let mut i = 0;
        while i < self.n {
            r = r | (hit[i] & a[i]);
            i += 1;
        }
        r
    }
    fn sel_short(&self, hit: &[bool; CAP], a: &[Short; CAP]) -> Short {
        let mut r = Short::zero();
        let mut i = 0;
        while i < self.n {
            r = Short::select(hit[i], a[i], r);
            i += 1;
        }
        r
    }
    // ---- operations used by the SDK surface
    pub fn get<V: Wordy>(&mut self, key: &Words) -> Option<V> {
        let hit = self.touch(key);
        if self.sel_bool(&hit, &self.present) {
            Some(V::read(&self.sel_short(&hit, &self.val).widen()))
        } else {
            None
        }
    }
    pub fn has(&mut self, key: &Words) -> bool {
        let hit = self.touch(key);
        self.sel_bool(&hit, &self.present)
    }
    pub fn set(&mut self, key: &Words, val: &Words) {
        let s = next_seq();
        let hit = self.touch(key);
        let v = Short::of(val);
        let mut i = 0;
        while i < self.n {
            let h = hit[i];
            self.present[i] = self.present[i] | h;
            self.val[i] = Short::select(h, v, self.val[i]);
            self.val_n[i] = selz(h, val.n, self.val_n[i]);
            self.first_write_seq[i] = sel32(h & !self.written[i], s, self.first_write_seq[i]);
            self.written[i] = self.written[i] | h;
            i += 1;
        }
    }
    pub fn remove(&mut self, key: &Words) {
        let s = next_seq();
        let hit = self.touch(key);
        let mut i = 0;
        while i < self.n {
            let h = hit[i];
            self.present[i] = self.present[i] & !h;
            self.first_write_seq[i] = sel32(h & !self.written[i], s, self.first_write_seq[i]);
            self.written[i] = self.written[i] | h;
            i += 1;
        }
    }
    // ---- harness side
    /// value of `key` when the invocation started
    pub fn pre<K: Wordy, V: Wordy>(&mut self, key: &K) -> Option<V> {
        let hit = self.touch(&Words::of(key));
        if self.sel_bool(&hit, &self.init_present) {
            Some(V::read(&self.sel_short(&hit, &self.init).widen()))
        } else {
            None
        }
    }
    pub fn pre_has<K: Wordy>(&mut self, key: &K) -> bool {
        let hit = self.touch(&Words::of(key));
        self.sel_bool(&hit, &self.init_present)
    }
    /// value of `key` now
    pub fn post<K: Wordy, V: Wordy>(&mut self, key: &K) -> Option<V> {
        self.get::<V>(&Words::of(key))
    }
    pub fn post_has<K: Wordy>(&mut self, key: &K) -> bool {
        self.has(&Words::of(key))
    }
    fn slot_changed(&self, i: usize) -> bool {
        self.valid[i]
            & self.written[i]
            & ((self.present[i] != self.init_present[i]) | (self.present[i] & !self.val[i].eq_prefix(&self.init[i], self.val_n[i])))
    }
    /// has `key`'s value changed since the invocation started?
    pub fn changed<K: Wordy>(&mut self, key: &K) -> bool {
        let hit = self.touch(&Words::of(key));
        let mut r = false;
        let mut i = 0;
        while i < self.n {
            r = r | (hit[i] & self.slot_changed(i));
            i += 1;
        }
        r
    }
    /// every key whose value differs from its initial value is one of `allowed`
    pub fn changed_only(&self, allowed: &[Words]) -> bool {
        let mut ok = true;
        let mut i = 0;
        while i < self.n {
            let mut found = false;
            for a in allowed.iter() {
                found = found | Short::of(a).eq(&self.key[i]);
            }
            ok = ok & (!self.slot_changed(i) | found);
            i += 1;
        }
        ok
    }
    /// number of keys whose value differs from their initial value
    pub fn n_changed(&self) -> usize {
        let mut c = 0;
        let mut i = 0;
        while i < self.n {
            c += self.slot_changed(i) as usize;
            i += 1;
        }
        c
    }
    /// number of keys that were written at all (even with an unchanged value)
    pub fn n_written(&self) -> usize {
        let mut c = 0;
        let mut i = 0;
        while i < self.n {
            c += (self.valid[i] & self.written[i]) as usize;
            i += 1;
        }
        c
    }
    /// smallest sequence number of any write to this map (u32::MAX if none)
    pub fn first_write_seq(&self) -> u32 {
        let mut m = u32::MAX;
        let mut i = 0;
        while i < self.n {
            let c = self.valid[i] & self.written[i] & (self.first_write_seq[i] < m);
            m = sel32(c, self.first_write_seq[i], m);
            i += 1;
        }
        m
    }
}

#[derive(Clone, Copy)]
pub struct EventRec {
    pub topics: Words,
    pub data: Short,
    pub seq: u32,
}
#[derive(Clone, Copy)]
pub struct CallRec {
    pub callee: u64,
    pub func: u64,
    pub args: Words,
    pub ret: Short,
    pub seq: u32,
}
#[derive(Clone, Copy)]
pub struct DeployRec {
    pub deployer: u64,
    pub salt: [u64; 4],
    pub wasm: [u64; 4],
    pub address: u64,
    pub args: Words,
    pub seq: u32,
}
const NO_EVENT: EventRec = EventRec { topics: Words::new(), data: Short::zero(), seq: 0 };
const NO_CALL: CallRec = CallRec { callee: 0, func: 0, args: Words::new(), ret: Short::zero(), seq: 0 };
const NO_DEPLOY: DeployRec = DeployRec { deployer: 0, salt: [0; 4], wasm: [0; 4], address: 0, args: Words::new(), seq: 0 };
/// capacity of the effect logs
pub const LCAP: usize = 8;
pub struct Host {
    pub instance: Map,
    pub persistent: Map,
    pub temporary: Map,
    pub events: [EventRec; LCAP],
    pub n_events: usize,
    pub calls: [CallRec; LCAP],
    pub n_calls: usize,
    pub deploys: [DeployRec; 2],
    pub n_deploys: usize,
    pub auth_addr: [u64; LCAP],
    pub auth_seq: [u32; LCAP],
    pub n_auth: usize,
    pub wasm_updates: [([u64; 4], u32); 2],
    pub n_wasm_updates: usize,
    pub timestamp: u64,
    pub sequence: u32,
    /// network setting `max_entry_ttl` (arbitrary, fixed during a run)
    pub max_ttl: u32,
    pub current: u64,
    pub seq: u32,
}
pub static mut HOST: Host = Host {
    instance: Map::new(),
    persistent: Map::new(),
    temporary: Map::new(),
    events: [NO_EVENT; LCAP],
    n_events: 0,
    calls: [NO_CALL; LCAP],
    n_calls: 0,
    deploys: [NO_DEPLOY; 2],
    n_deploys: 0,
    auth_addr: [0; LCAP],
    auth_seq: [0; LCAP],
    n_auth: 0,
    wasm_updates: [([0; 4], 0); 2],
    n_wasm_updates: 0,
    timestamp: 0,
    sequence: 0,
    max_ttl: 0,
    current: 0,
    seq: 0,
};
pub fn host() -> &'static mut Host {
    unsafe { &mut HOST }
}
pub fn next_seq() -> u32 {
    let h = host();
    h.seq += 1;
    h.seq
}
/// Start of a harness: arbitrary ledger clock and contract identity.
pub fn fresh_host() -> &'static mut Host {
    let h = host();
    h.timestamp = nondet();
    h.sequence = nondet();
    h.max_ttl = nondet();
    h.current = nondet();
    h
}
// The effect counters may become symbolic where effects happen under symbolic conditions, so
// log writes are guarded scalar updates over the concrete slots.
pub fn log_event(topics: Words, data: Words) {
    let s = next_seq();
    let h = host();
    if h.n_events >= LCAP {
        harness_bug("event capacity");
    }
    let rec = EventRec { topics, data: Short::of(&data), seq: s };
    let mut i = 0;
    while i < LCAP {
        if i == h.n_events {
            h.events[i] = rec;
        }
        i += 1;
    }
    h.n_events += 1;
}
pub fn log_auth(addr: u64) {
    let s = next_seq();
    let h = host();
    if h.n_auth >= LCAP {
        harness_bug("auth log capacity");
    }
    let mut i = 0;
    while i < LCAP {
        if i == h.n_auth {
            h.auth_addr[i] = addr;
            h.auth_seq[i] = s;
        }
        i += 1;
    }
    h.n_auth += 1;
}
pub static mut TEMP_TTL: [(Short, u32, u32); 2] = [(Short::zero(), 0, 0); 2];
pub static mut N_TEMP_TTL: usize = 0;
pub fn log_temp_ttl(key: Words, threshold: u32, extend_to: u32) {
    unsafe {
        if N_TEMP_TTL >= 2 {
            harness_bug("temporary ttl log capacity");
        }
        TEMP_TTL[N_TEMP_TTL] = (Short::of(&key), threshold, extend_to);
        N_TEMP_TTL += 1;
    }
}
/// largest lifetime (in ledgers from now) requested for this temporary key during the invocation (None if none)
pub fn temp_ttl_requested<K: Wordy>(key: &K) -> Option<u32> {
    let k = Short::of(&Words::of(key));
    let mut r: Option<u32> = None;
    let mut i = 0;
    while i < 2 {
        unsafe {
            if i < N_TEMP_TTL && TEMP_TTL[i].0.eq(&k) {
                let e = TEMP_TTL[i].2;
                r = Some(match r {
                    Some(x) if x > e => x,
                    _ => e,
                });
            }
        }
        i += 1;
    }
    r
}
pub static mut CUSTOM_AUTH: [(u64, u32); 2] = [(0, 0); 2];
pub static mut N_CUSTOM_AUTH: usize = 0;
/// `require_auth_for_args`: recorded apart from the full-invocation authorisations
pub fn log_auth_custom(addr: u64, _args: Words) {
    let s = next_seq();
    unsafe {
        if N_CUSTOM_AUTH >= 2 {
            harness_bug("custom auth log capacity");
        }
        CUSTOM_AUTH[N_CUSTOM_AUTH] = (addr, s);
        N_CUSTOM_AUTH += 1;
    }
}
pub fn log_wasm_update(hash: crate::BytesN<32>) {
    let s = next_seq();
    let h = host();
    if h.n_wasm_updates >= 2 {
        harness_bug("wasm update capacity");
    }
    let rec = ([hash.0[0], hash.0[1], hash.0[2], hash.0[3]], s);
    let mut i = 0;
    while i < 2 {
        if i == h.n_wasm_updates {
            h.wasm_updates[i] = rec;
        }
        i += 1;
    }
    h.n_wasm_updates += 1;
}
pub fn log_deploy(deployer: u64, salt: crate::BytesN<32>, wasm: crate::BytesN<32>, address: u64, args: Words) {
    let s = next_seq();
    let h = host();
    if h.n_deploys >= 2 {
        harness_bug("deploy capacity");
    }
    let rec = DeployRec {
        deployer,
        salt: [salt.0[0], salt.0[1], salt.0[2], salt.0[3]],
        wasm: [wasm.0[0], wasm.0[1], wasm.0[2], wasm.0[3]],
        address,
        args,
        seq: s,
    };
    let mut i = 0;
    while i < 2 {
        if i == h.n_deploys {
            h.deploys[i] = rec;
        }
        i += 1;
    }
    h.n_deploys += 1;
}
fn log_call(rec: CallRec) {
    let h = host();
    if h.n_calls >= LCAP {
        harness_bug("call log capacity");
    }
    let mut i = 0;
    while i < LCAP {
        if i == h.n_calls {
            h.calls[i] = rec;
        }
        i += 1;
    }
    h.n_calls += 1;
}
/// Cross-contract call: logged; a failing callee traps the caller (A-CALL) so only the
/// successful return — a fresh symbolic value of the declared type — is modelled.
pub fn invoke_id<R: Wordy>(addr: &crate::Address, func: u64, args: Words) -> R {
    let s = next_seq();
    let r = R::symbolic();
    log_call(CallRec { callee: addr.0, func, args, ret: Short::of(&Words::of(&r)), seq: s });
    r
}
pub fn invoke<R: Wordy>(addr: &crate::Address, f: &'static str, args: Words) -> R {
    invoke_id::<R>(addr, crate::fnv(f), args)
}
/// A contract stub records its own invocation (callee id 0 = "internal function replaced by its contract").
pub fn log_internal(f: &'static str, args: Words) {
    let s = next_seq();
    log_call(CallRec { callee: 0, func: crate::fnv(f), args, ret: Short::zero(), seq: s });
}

// ---- harness-side views of the logs
pub fn n_events() -> usize {
    host().n_events
}
pub fn event(i: usize) -> EventRec {
    host().events[i]
}
/// does event `i` (concrete index) carry exactly these topics and this data?
pub fn event_is<T: Wordy, D: Wordy>(i: usize, topics: &T, data: &D) -> bool {
    let h = host();
    if i >= LCAP || i >= h.n_events {
        return false;
    }
    let e = h.events[i];
    e.topics == Words::of(topics) && e.data.eq(&Short::of(&Words::of(data)))
}
pub fn n_calls() -> usize {
    host().n_calls
}
pub fn call(i: usize) -> CallRec {
    host().calls[i]
}
pub fn call_is<A: Wordy>(i: usize, callee: &crate::Address, f: &str, args: &A) -> bool {
    let h = host();
    if i >= LCAP || i >= h.n_calls {
        return false;
    }
    let c = h.calls[i];
    c.callee == callee.0 && c.func == crate::fnv(f) && c.args == Words::of(args)
}
pub fn internal_call_is<A: Wordy>(i: usize, f: &str, args: &A) -> bool {
    let h = host();
    if i >= LCAP || i >= h.n_calls {
        return false;
    }
    let c = h.calls[i];
    c.callee == 0 && c.func == crate::fnv(f) && c.args == Words::of(args)
}
/// index of the first logged call to `callee`.`f` (LCAP if there is none) — order-insensitive lookups
pub fn find_call(callee: &crate::Address, f: &str) -> usize {
    let h = host();
    let mut r = LCAP;
    let mut i = LCAP;
    while i > 0 {
        i -= 1;
        if i < h.n_calls && h.calls[i].callee == callee.0 && h.calls[i].func == crate::fnv(f) {
            r = i;
        }
    }
    r
}
/// was `callee`.`f`(args) called (at any position)?
pub fn called<A: Wordy>(callee: &crate::Address, f: &str, args: &A) -> bool {
    let mut r = false;
    let mut i = 0;
    while i < LCAP {
        r = r | call_is(i, callee, f, args);
        i += 1;
    }
    r
}
/// was the contract stub `f` invoked with exactly these arguments (at any position)?
pub fn internal_called<A: Wordy>(f: &str, args: &A) -> bool {
    let mut r = false;
    let mut i = 0;
    while i < LCAP {
        r = r | internal_call_is(i, f, args);
        i += 1;
    }
    r
}
/// return value of the first call to `callee`.`f` (only meaningful if `find_call` found one)
pub fn ret_of<R: Wordy>(callee: &crate::Address, f: &str) -> R {
    let i = find_call(callee, f);
    let h = host();
    let mut r = Short::zero();
    let mut k = 0;
    while k < LCAP {
        r = Short::select(k == i, h.calls[k].ret, r);
        k += 1;
    }
    R::read(&r.widen())
}
pub fn call_ret<R: Wordy>(i: usize) -> R {
    R::read(&host().calls[i].ret.widen())
}
pub fn call_seq(i: usize) -> u32 {
    host().calls[i].seq
}
pub fn event_seq(i: usize) -> u32 {
    host().events[i].seq
}
pub fn n_deploys() -> usize {
    host().n_deploys
}
pub fn deploy(i: usize) -> DeployRec {
    host().deploys[i]
}
pub fn n_auth() -> usize {
    host().n_auth
}
/// was `require_auth` demanded of (and, since we returned, granted by) this address?
pub fn authed(a: &crate::Address) -> bool {
    let h = host();
    let mut i = 0;
    let mut r = false;
    while i < LCAP {
        if i < h.n_auth && h.auth_addr[i] == a.0 {
            r = true;
        }
        i += 1;
    }
    r
}
/// sequence number of the first `require_auth` of this address (u32::MAX if none)
pub fn auth_seq(a: &crate::Address) -> u32 {
    let h = host();
    let mut i = 0;
    let mut r = u32::MAX;
    while i < LCAP {
        if i < h.n_auth && h.auth_addr[i] == a.0 && h.auth_seq[i] < r {
            r = h.auth_seq[i];
        }
        i += 1;
    }
    r
}
pub fn n_wasm_updates() -> usize {
    host().n_wasm_updates
}
pub fn wasm_update_is(i: usize, hash: &crate::BytesN<32>) -> bool {
    let h = host();
    if i >= 2 || i >= h.n_wasm_updates {
        return false;
    }
    let (w, _) = h.wasm_updates[i];
    w[0] == hash.0[0] && w[1] == hash.0[1] && w[2] == hash.0[2] && w[3] == hash.0[3]
}
/// no observable effect so far: no storage change, event, call, deployment or code update
pub fn no_effects() -> bool {
    let h = host();
    h.instance.n_changed() == 0
        && h.persistent.n_changed() == 0
        && h.temporary.n_changed() == 0
        && h.n_events == 0
        && h.n_calls == 0
        && h.n_deploys == 0
        && h.n_wasm_updates == 0
}
/// like `no_effects`, but contract stubs' own invocation records (callee 0) do not count
pub fn no_external_effects() -> bool {
    let h = host();
    let mut ext = 0;
    let mut i = 0;
    while i < LCAP {
        if i < h.n_calls && h.calls[i].callee != 0 {
            ext += 1;
        }
        i += 1;
    }
    h.instance.n_changed() == 0
        && h.persistent.n_changed() == 0
        && h.temporary.n_changed() == 0
        && h.n_events == 0
        && ext == 0
        && h.n_deploys == 0
        && h.n_wasm_updates == 0
}
pub fn inst() -> &'static mut Map {
    &mut host().instance
}
pub fn pers() -> &'static mut Map {
    &mut host().persistent
}
pub fn temp() -> &'static mut Map {
    &mut host().temporary
}

// ------------------------------------------------------------------------------------------------
// uninterpreted functions: memo tables in the same append-only style (concrete length)
// ------------------------------------------------------------------------------------------------
/// word-keyed table with u64 results; `injective` makes results of distinct keys distinct and non-zero
pub struct WTable<const N: usize> {
    pub n: usize,
    pub key: [Words; N],
    pub valid: [bool; N],
    pub val: [u64; N],
}
impl<const N: usize> WTable<N> {
    pub const fn new() -> Self {
        WTable { n: 0, key: [Words::new(); N], valid: [false; N], val: [0; N] }
    }
    pub fn lookup(&mut self, k: Words, injective: bool) -> u64 {
        let mut any = false;
        let mut r: u64 = 0;
        let mut i = 0;
        while i < self.n {
            let h = self.valid[i] & (self.key[i] == k);
            any = any | h;
            r = sel(h, self.val[i], r);
            i += 1;
        }
        if self.n >= N {
            harness_bug("memo table capacity");
        }
        let fresh: u64 = nondet();
        if injective {
            let mut ok = fresh != 0;
            let mut j = 0;
            while j < self.n {
                ok = ok & !(self.valid[j] & (self.val[j] == fresh));
                j += 1;
            }
            assume(any | ok);
        }
        let j = self.n;
        self.key[j] = k;
        self.valid[j] = !any;
        self.val[j] = fresh;
        self.n += 1;
        sel(any, r, fresh)
    }
}
fn key1(a: u64) -> Words {
    let mut w = Words::new();
    w.push(a);
    w
}

/// Oracle: has `addr` authorised the current invocation (or is it the invoking contract)?
pub static mut AUTH_GRANTED: WTable<8> = WTable::new();
pub fn auth_granted(addr: u64) -> bool {
    unsafe { AUTH_GRANTED.lookup(key1(addr), false) & 1 == 1 }
}

pub static mut INTERN: WTable<24> = WTable::new();
/// Injective interning of a word tuple into one abstract id (never `EMPTY_ID`).
pub fn intern(w: Words) -> u64 {
    unsafe { INTERN.lookup(w, true) }
}

pub static mut UF: WTable<32> = WTable::new();
/// A plain uninterpreted function of a word tuple: equal arguments give equal results, and NOTHING
/// else is known (in particular not injective).  Used for operations on abstract byte strings whose
/// result is not determined by identities alone — concatenation of variable-length strings, proper
/// sub-strings: `"a_" ++ "b"` and `"a" ++ "_b"` are the same bytes, so modelling them by an injective
/// constructor would verify code that relies on such a concatenation being collision-free.
pub fn uf(w: Words) -> u64 {
    unsafe { UF.lookup(w, false) }
}

pub static mut XDR: WTable<24> = WTable::new();
/// `to_xdr`: uninterpreted, injective on the terms of one run.
pub fn xdr_of(w: Words) -> u64 {
    unsafe { XDR.lookup(w, true) }
}

pub const KCAP: usize = 24;
pub struct KTable {
    pub n: usize,
    pub key: [u64; KCAP],
    pub valid: [bool; KCAP],
    pub val: [[u64; 4]; KCAP],
}
pub static mut KECCAK: KTable = KTable { n: 0, key: [0; KCAP], valid: [false; KCAP], val: [[0; 4]; KCAP] };
/// keccak256: uninterpreted, collision-free on the inputs of one run.
pub fn keccak_of(id: u64) -> crate::BytesN<32> {
    let t = unsafe { &mut KECCAK };
    let mut any = false;
    let mut r = [0u64; 4];
    let mut i = 0;
    while i < t.n {
        let h = t.valid[i] & (t.key[i] == id);
        any = any | h;
        r = [sel(h, t.val[i][0], r[0]), sel(h, t.val[i][1], r[1]), sel(h, t.val[i][2], r[2]), sel(h, t.val[i][3], r[3])];
        i += 1;
    }
    if t.n >= KCAP {
        harness_bug("keccak capacity");
    }
    let fresh: [u64; 4] = [nondet(), nondet(), nondet(), nondet()];
    let mut ok = true;
    let mut j = 0;
    while j < t.n {
        ok = ok & !(t.valid[j] & (t.val[j][0] == fresh[0]) & (t.val[j][1] == fresh[1]) & (t.val[j][2] == fresh[2]) & (t.val[j][3] == fresh[3]));
        j += 1;
    }
    assume(any | ok);
    let j = t.n;
    t.key[j] = id;
    t.valid[j] = !any;
    t.val[j] = fresh;
    t.n += 1;
    crate::BytesN([sel(any, r[0], fresh[0]), sel(any, r[1], fresh[1]), sel(any, r[2], fresh[2]), sel(any, r[3], fresh[3]), 0, 0, 0, 0])
}

pub static mut SIGS: WTable<8> = WTable::new();
/// Ed25519 validity: uninterpreted predicate of (public key, message, signature).
pub fn sig_valid(pk: &crate::BytesN<32>, msg: &crate::Bytes, sig: &crate::BytesN<64>) -> bool {
    let mut w = Words::new();
    pk.to_words(&mut w);
    w.push(msg.id);
    sig.to_words(&mut w);
    unsafe { SIGS.lookup(w, false) & 1 == 1 }
}

pub static mut LEN: WTable<32> = WTable::new();
/// length of an abstract string / byte string: zero exactly for the empty one
pub fn len_of(id: u64) -> u32 {
    if id == crate::EMPTY_ID {
        return 0;
    }
    let l = unsafe { LEN.lookup(key1(id), false) } as u32;
    assume(l != 0);
    l
}
pub fn set_len_of(_id: u64, _l: u32) {
    // literals: the length is only observable through `len()`, which no verified function applies
    // to a literal; kept abstract.
}

pub static mut OCCUPIED: [(u64, bool); 4] = [(0, false); 4];
pub static mut N_OCCUPIED: usize = 0;
/// does a contract already exist at this address (initially an oracle; set by deployments)?
pub fn address_occupied(a: u64) -> bool {
    let t = unsafe { &mut OCCUPIED };
    let n = unsafe { &mut N_OCCUPIED };
    let mut any = false;
    let mut r = false;
    let mut i = 0;
    while i < *n {
        if t[i].0 == a {
            any = true;
            r = t[i].1; // later slots of the same address override earlier ones
        }
        i += 1;
    }
    if any {
        return r;
    }
    if *n >= 4 {
        harness_bug("occupied table capacity");
    }
    let v: bool = nondet();
    t[*n] = (a, v);
    *n += 1;
    v
}
pub fn set_address_occupied(a: u64) {
    let t = unsafe { &mut OCCUPIED };
    let n = unsafe { &mut N_OCCUPIED };
    if *n >= 4 {
        harness_bug("occupied table capacity");
    }
    t[*n] = (a, true);
    *n += 1;
}
/// harness side: fix the oracle's answer for an address before the call
pub fn given_occupied(a: u64, v: bool) {
    assume(address_occupied(a) == v);
}

// ---- concrete byte contents (codec harnesses only): a small inline table, no heap
pub const CMAX: usize = 640;
pub const CSLOTS: usize = 4;
pub const CONTENT_ID_BASE: u64 = 0xC0DE_0000_0000_0000;
pub struct ContentTable {
    pub n: usize,
    pub id: [u64; CSLOTS],
    pub len: [usize; CSLOTS],
    pub bytes: [[u8; CMAX]; CSLOTS],
}
pub static mut CONTENT: ContentTable = ContentTable { n: 0, id: [0; CSLOTS], len: [0; CSLOTS], bytes: [[0; CMAX]; CSLOTS] };
fn same_content(t: &ContentTable, k: usize, s: &[u8]) -> bool {
    if t.len[k] != s.len() {
        return false;
    }
    let mut eq = true;
    let mut i = 0;
    while i < s.len() {
        if t.bytes[k][i] != s[i] {
            eq = false;
        }
        i += 1;
    }
    eq
}
pub fn content_id(s: &[u8]) -> u64 {
    if s.is_empty() {
        return crate::EMPTY_ID;
    }
    if s.len() > CMAX {
        harness_bug("byte content longer than the content table rows");
    }
    let t = unsafe { &mut CONTENT };
    let mut k = 0;
    while k < t.n {
        if same_content(t, k, s) {
            return t.id[k];
        }
        k += 1;
    }
    if t.n >= CSLOTS {
        harness_bug("content table capacity");
    }
    // The identity of registered content is a CONSTANT (slot-derived, even, never EMPTY_ID; literal
    // strings without registered content have odd ids): the model checker only folds comparisons of
    // constants, and lengths / loop bounds derived from a registered content must stay concrete.
    let id: u64 = CONTENT_ID_BASE + 2 * (t.n as u64);
    let k = t.n;
    t.id[k] = id;
    t.len[k] = s.len();
    let mut i = 0;
    while i < s.len() {
        t.bytes[k][i] = s[i];
        i += 1;
    }
    t.n += 1;
    id
}
/// id of already registered content, if any (does not register)
pub fn lookup_content(s: &[u8]) -> Option<u64> {
    if s.len() > CMAX {
        return None;
    }
    let t = unsafe { &mut CONTENT };
    let mut k = 0;
    while k < t.n {
        if same_content(t, k, s) {
            return Some(t.id[k]);
        }
        k += 1;
    }
    None
}
pub fn content_of(id: u64) -> std::vec::Vec<u8> {
    if id == crate::EMPTY_ID {
        return std::vec::Vec::new();
    }
    let t = unsafe { &mut CONTENT };
    let mut k = 0;
    while k < t.n {
        if t.id[k] == id {
            return t.bytes[k][..t.len[k]].to_vec();
        }
        k += 1;
    }
    harness_bug("Bytes content is abstract: stub the caller by its contract")
}
/// harness side: the key `EnumName::Variant` of a unit variant of any `#[contracttype]` enum (the
/// host identifies it by the variant name only)
#[derive(Clone, Copy, Debug)]
pub struct UnitKey(pub &'static str);
impl Wordy for UnitKey {
    const NW: usize = 1;
    fn to_words(&self, out: &mut Words) {
        out.push(crate::fnv(self.0));
    }
    fn from_words(_r: &mut Reader) -> Self {
        harness_bug("UnitKey from words")
    }
    fn symbolic() -> Self {
        harness_bug("UnitKey symbolic")
    }
}
pub const OWNER_KEY: UnitKey = UnitKey("Interfaces_Owner");
pub const OPERATOR_KEY: UnitKey = UnitKey("Interfaces_Operator");
pub const MIGRATING_KEY: UnitKey = UnitKey("Interfaces_Migrating");

pub static mut ABSTRACT_CONTENT_TAKEN: Option<u64> = None;
/// length of a registered content (first slot with this identity; 0 if there is none) — no heap
/// allocation, so the length stays a constant for the model checker whenever the slot is decided
pub fn content_len(id: u64) -> usize {
    let t = unsafe { &mut CONTENT };
    let mut k = 0;
    while k < t.n {
        if t.id[k] == id {
            return t.len[k];
        }
        k += 1;
    }
    0
}
/// byte `i` of a registered content (first slot with this identity)
pub fn content_byte(id: u64, i: usize) -> u8 {
    let t = unsafe { &mut CONTENT };
    let mut k = 0;
    while k < t.n {
        if t.id[k] == id {
            return t.bytes[k][i];
        }
        k += 1;
    }
    0
}
pub fn has_content(id: u64) -> bool {
    // table first: for a registered identity the answer is a constant for the model checker
    let t = unsafe { &mut CONTENT };
    let mut k = 0;
    let mut r = false;
    while k < t.n {
        if t.id[k] == id {
            r = true;
        }
        k += 1;
    }
    r || id == crate::EMPTY_ID
}
/// a contract stub consumes the identity of the abstract byte string whose content was requested
/// (None: the content handed out was concrete)
pub fn take_abstract_content() -> Option<u64> {
    unsafe { ABSTRACT_CONTENT_TAKEN.take() }
}
pub fn no_dangling_abstract_content() {
    if unsafe { ABSTRACT_CONTENT_TAKEN.is_some() } {
        harness_bug("real code inspected the content of an abstract byte string");
    }
}

/// harness side: is `v` (of whatever type an entry point returns) this very host value?  Lets a
/// harness stay compilable when a change alters an entry point's return type: a different type is
/// simply "not that value".
pub fn same_val<T: 'static>(v: &T, w: &crate::Val) -> bool {
    match (v as &dyn core::any::Any).downcast_ref::<crate::Val>() {
        Some(x) => x == w,
        None => false,
    }
}
