//! The real soroban-token-sdk 22.0.2 sources (event.rs, metadata.rs, and the TokenUtils struct of
//! lib.rs) compiled unmodified against the abstract-host shim.
#![allow(dead_code)]
pub mod event {
    include!(concat!(env!("TOKEN_SDK_SRC"), "/event.rs"));
}
pub mod metadata {
    include!(concat!(env!("TOKEN_SDK_SRC"), "/metadata.rs"));
}
use crate::event::Events;
use crate::metadata::Metadata;
use soroban_sdk::Env;

// verbatim from soroban-token-sdk-22.0.2/src/lib.rs
#[derive(Clone)]
pub struct TokenUtils(Env);

impl TokenUtils {
    #[inline(always)]
    pub fn new(env: &Env) -> TokenUtils {
        TokenUtils(env.clone())
    }

    pub fn metadata(&self) -> Metadata {
        Metadata::new(&self.0)
    }

    pub fn events(&self) -> Events {
        Events::new(&self.0)
    }
}
