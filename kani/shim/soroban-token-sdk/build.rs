// Locate the REAL soroban-token-sdk sources in the offline cargo registry: they are compiled
// unmodified against the abstract-host shim (include! in src/lib.rs).
use std::path::PathBuf;
fn main() {
    let home = std::env::var("CARGO_HOME").unwrap_or_else(|_| format!("{}/.cargo", std::env::var("HOME").unwrap()));
    let base = PathBuf::from(home).join("registry/src");
    let mut found = None;
    if let Ok(rd) = std::fs::read_dir(&base) {
        for d in rd.flatten() {
            let p = d.path().join("soroban-token-sdk-22.0.2/src");
            if p.join("event.rs").exists() {
                found = Some(p);
            }
        }
    }
    let p = found.expect("soroban-token-sdk-22.0.2 sources not found in cargo registry");
    println!("cargo:rustc-env=TOKEN_SDK_SRC={}", p.display());
    println!("cargo:rerun-if-changed=build.rs");
}
