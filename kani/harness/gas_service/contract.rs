// Contracts and proof harnesses for contracts/axelar-gas-service/src/contract.rs.
use super::*;
// named explicitly: the harness must not depend on which of these the file under verification happens to import
use soroban_sdk::contract;
use soroban_sdk::contractimpl;
use soroban_sdk::token;
use soroban_sdk::Address;
use soroban_sdk::Bytes;
use soroban_sdk::Env;
use soroban_sdk::String;
use crate::error::ContractError;
use crate::event;
use crate::interface::AxelarGasServiceInterface;
use crate::storage_types::DataKey;
use axelar_soroban_std::ttl::extend_instance_ttl;
use axelar_soroban_std::ensure;
use axelar_soroban_std::interfaces;
use axelar_soroban_std::types::Token;
use axelar_soroban_std::Ownable;
use axelar_soroban_std::Upgradable;
use soroban_sdk::shim::{self, inst, pers, temp, Wordy, Words, OWNER_KEY};
use soroban_sdk::Symbol;

type G = AxelarGasService;

fn sym_token() -> Token {
    Token { address: Address::symbolic(), amount: kani::any() }
}
fn no_storage_change() -> bool {
    inst().n_changed() == 0 && pers().n_changed() == 0 && temp().n_changed() == 0 && shim::n_deploys() == 0 && shim::n_wasm_updates() == 0
}

#[kani::proof]
fn c14_pay_gas() {
    let env = Env::default();
    let _h = shim::fresh_host();
    let me = env.current_contract_address();
    let (sender, spender) = (Address::symbolic(), Address::symbolic());
    let (chain, dest) = (String::symbolic(), String::symbolic());
    let (payload, metadata) = (Bytes::symbolic(), Bytes::symbolic());
    let token = sym_token();

    let r = G::pay_gas(env.clone(), sender.clone(), chain.clone(), dest.clone(), payload.clone(), spender.clone(), token.clone(), metadata.clone());

    match r {
        Ok(()) => {
            soroban_sdk::obl!(shim::authed(&spender), "OBL C07.pay_gas_needs_spender: gas is paid from `spender` only under the spender's own authorisation (the sender's or anyone else's is not enough)");
            soroban_sdk::obl!(token.amount > 0, "OBL C14.payment_needs_positive_amount");
            soroban_sdk::obl!(
                shim::n_calls() == 1 && shim::call_is(0, &token.address, "transfer", &(spender.clone(), me.clone(), token.amount)),
                "OBL C14.payment_moves_exact_amount: exactly one token transfer, of exactly the amount, from the spender to the service, on the named token"
            );
            soroban_sdk::obl!(
                shim::n_events() == 1
                    && shim::event_is(0, &(Symbol::new(&env, "gas_paid"), sender.clone(), chain.clone(), dest.clone(), env.crypto().keccak256(&payload), spender.clone(), token.clone()), &(metadata.clone(),)),
                "OBL C14.payment_event: one gas_paid event with the same token and amount"
            );
            soroban_sdk::obl!(no_storage_change(), "OBL C14.payment_frame");
            kani::cover!(true, "COVER pay_gas ok");
        }
        Err(e) => {
            soroban_sdk::obl!(token.amount <= 0 && e == ContractError::InvalidAmount, "OBL C14.payment_err_only_nonpositive");
            soroban_sdk::obl!(shim::no_effects(), "OBL C14.rejected_payment_moves_nothing");
            kani::cover!(true, "COVER pay_gas err");
        }
    }
}

#[kani::proof]
fn c14_add_gas() {
    let env = Env::default();
    let _h = shim::fresh_host();
    let me = env.current_contract_address();
    let (sender, spender) = (Address::symbolic(), Address::symbolic());
    let mid = String::symbolic();
    let token = sym_token();

    let r = G::add_gas(env.clone(), sender.clone(), mid.clone(), spender.clone(), token.clone());

    match r {
        Ok(()) => {
            soroban_sdk::obl!(shim::authed(&spender), "OBL C07.add_gas_needs_spender");
            soroban_sdk::obl!(token.amount > 0, "OBL C14.topup_needs_positive_amount");
            soroban_sdk::obl!(shim::n_calls() == 1 && shim::call_is(0, &token.address, "transfer", &(spender.clone(), me.clone(), token.amount)), "OBL C14.topup_moves_exact_amount");
            soroban_sdk::obl!(shim::n_events() == 1 && shim::event_is(0, &(Symbol::new(&env, "gas_added"), sender.clone(), mid.clone(), spender.clone(), token.clone()), &()), "OBL C14.topup_event");
            soroban_sdk::obl!(no_storage_change(), "OBL C14.topup_frame");
            kani::cover!(true, "COVER add_gas ok");
        }
        Err(e) => {
            soroban_sdk::obl!(token.amount <= 0 && e == ContractError::InvalidAmount, "OBL C14.topup_err_only_nonpositive");
            soroban_sdk::obl!(shim::no_effects(), "OBL C14.rejected_topup_moves_nothing");
            kani::cover!(true, "COVER add_gas err");
        }
    }
}

#[kani::proof]
fn c14_collect_fees() {
    let env = Env::default();
    let _h = shim::fresh_host();
    let me = env.current_contract_address();
    let receiver = Address::symbolic();
    let token = sym_token();

    let r = G::collect_fees(env.clone(), receiver.clone(), token.clone());

    let collector: Option<Address> = inst().pre(&DataKey::GasCollector);
    let c = collector.clone().unwrap_or(Address(0));
    match r {
        Ok(()) => {
            soroban_sdk::obl!(matches!(&collector, Some(c) if shim::authed(c)), "OBL C06.collect_fees_needs_collector: funds leave only under the authorisation of the gas collector stored at entry");
            soroban_sdk::obl!(token.amount > 0, "OBL C14.collect_needs_positive_amount");
            soroban_sdk::obl!(
                shim::n_calls() == 2 && shim::call_is(0, &token.address, "balance", &(me.clone(),)) && shim::call_ret::<i128>(0) >= token.amount,
                "OBL C14.collect_never_more_than_held: the service's own balance, as reported by the token, covers the amount"
            );
            soroban_sdk::obl!(shim::call_is(1, &token.address, "transfer", &(me.clone(), receiver.clone(), token.amount)), "OBL C14.collect_moves_exact_amount");
            soroban_sdk::obl!(shim::n_events() == 1 && shim::event_is(0, &(Symbol::new(&env, "gas_collected"), c.clone(), token.clone()), &()), "OBL C14.collect_event");
            soroban_sdk::obl!(no_storage_change(), "OBL C14.collect_frame");
            kani::cover!(true, "COVER collect ok");
        }
        Err(e) => {
            soroban_sdk::obl!(
                (token.amount <= 0 && e == ContractError::InvalidAmount && shim::n_calls() == 0)
                    || (token.amount > 0 && e == ContractError::InsufficientBalance && shim::n_calls() == 1 && shim::call_is(0, &token.address, "balance", &(me.clone(),)) && shim::call_ret::<i128>(0) < token.amount),
                "OBL C14.collect_err_cases: refused only for a non-positive amount or an amount above the balance, and then no transfer is attempted"
            );
            soroban_sdk::obl!(no_storage_change() && shim::n_events() == 0, "OBL C14.rejected_collect_moves_nothing");
            kani::cover!(e == ContractError::InsufficientBalance, "COVER collect err balance");
            kani::cover!(e == ContractError::InvalidAmount, "COVER collect err amount");
        }
    }
}

#[kani::proof]
fn c14_refund() {
    let env = Env::default();
    let _h = shim::fresh_host();
    let me = env.current_contract_address();
    let receiver = Address::symbolic();
    let mid = String::symbolic();
    let token = sym_token();

    G::refund(env.clone(), mid.clone(), receiver.clone(), token.clone());

    let collector: Option<Address> = inst().pre(&DataKey::GasCollector);
    soroban_sdk::obl!(matches!(&collector, Some(c) if shim::authed(c)), "OBL C06.refund_needs_collector: refunds are issued only under the authorisation of the gas collector stored at entry");
    let c = collector.unwrap_or(Address(0));
    soroban_sdk::obl!(shim::n_calls() == 1 && shim::call_is(0, &token.address, "transfer", &(me.clone(), receiver.clone(), token.amount)), "OBL C14.refund_moves_exact_amount: exactly one transfer of exactly the amount from the service to the receiver (the token refuses more than is held: C12)");
    soroban_sdk::obl!(shim::n_events() == 1 && shim::event_is(0, &(Symbol::new(&env, "gas_refunded"), mid.clone(), receiver.clone(), token.clone()), &()), "OBL C14.refund_event");
    soroban_sdk::obl!(no_storage_change(), "OBL C14.refund_frame");
    kani::cover!(true, "COVER refund returned");
}

#[kani::proof]
fn c14_constructor_and_view() {
    let env = Env::default();
    let _h = shim::fresh_host();
    let (owner, collector) = (Address::symbolic(), Address::symbolic());
    G::__constructor(env.clone(), owner.clone(), collector.clone());
    soroban_sdk::obl!(inst().post::<_, Address>(&OWNER_KEY) == Some(owner.clone()) && inst().post::<_, Address>(&DataKey::GasCollector) == Some(collector.clone()), "OBL C06.gas_ctor_sets_roles");
    soroban_sdk::obl!(G::gas_collector(&env) == collector, "OBL C06.gas_collector_view");
    soroban_sdk::obl!(shim::n_calls() == 0 && shim::n_events() == 0 && pers().n_changed() == 0, "OBL C14.ctor_moves_nothing");
    kani::cover!(true, "COVER gas ctor");
}

soroban_sdk::harness_ownable!(AxelarGasService, c06_gas_transfer_ownership);
soroban_sdk::harness_upgradable!(AxelarGasService, ContractError, c15_gas_upgrade, c15_gas_migrate);
