// Contract and proof harness for contracts/upgrader/src/contract.rs.
use super::*;
// named explicitly: the harness must not depend on which of these the file under verification happens to import
use crate::error::ContractError;
use axelar_soroban_std::ensure;
use axelar_soroban_std::interfaces::UpgradableClient;
use soroban_sdk::contract;
use soroban_sdk::contractimpl;
use soroban_sdk::symbol_short;
use soroban_sdk::Address;
use soroban_sdk::BytesN;
use soroban_sdk::Env;
use soroban_sdk::String;
use soroban_sdk::Symbol;
use soroban_sdk::Val;
use soroban_sdk::shim::{self, inst, pers, temp, Wordy, Words};

#[kani::proof]
fn c15_upgrader_upgrade() {
    let env = Env::default();
    let _h = shim::fresh_host();
    let target = Address::symbolic();
    let new_version = String::symbolic();
    let hash: BytesN<32> = BytesN::symbolic();
    let data: soroban_sdk::Vec<Val> = soroban_sdk::Vec::abstract_symbolic();

    let r = Upgrader::upgrade(env.clone(), target.clone(), new_version.clone(), hash, data.clone());

    soroban_sdk::obl!(shim::n_calls() >= 1 && shim::call_is(0, &target, "version", &()), "OBL C15.upgrader_reads_version_first");
    let v0: String = shim::call_ret(0);
    match r {
        Ok(()) => {
            soroban_sdk::obl!(v0 != new_version, "OBL C15.upgrader_needs_different_version");
            soroban_sdk::obl!(
                shim::n_calls() == 4 && shim::call_is(1, &target, "upgrade", &(hash,)) && shim::call_is(2, &target, "migrate", &data) && shim::call_is(3, &target, "version", &()),
                "OBL C15.upgrader_call_sequence: exactly version, upgrade(requested hash), migrate(given data), version — in that order, all on the target"
            );
            soroban_sdk::obl!(shim::call_ret::<String>(3) == new_version, "OBL C15.upgrader_ends_at_requested_version");
            kani::cover!(true, "COVER upgrader ok");
        }
        Err(e) => {
            let code = soroban_sdk::Error::from(&e).code();
            soroban_sdk::obl!(
                (code == 1 && shim::n_calls() == 1 && v0 == new_version) || (code == 2 && shim::n_calls() == 4 && shim::call_ret::<String>(3) != new_version),
                "OBL C15.upgrader_err_cases: Err (=> whole call tree rolled back) exactly for an unchanged version or an unexpected version after migration"
            );
            kani::cover!(code == 1, "COVER upgrader same version");
            kani::cover!(code == 2, "COVER upgrader unexpected version");
        }
    }
    soroban_sdk::obl!(inst().n_changed() == 0 && pers().n_changed() == 0 && temp().n_changed() == 0 && shim::n_events() == 0 && shim::n_auth() == 0, "OBL C15.upgrader_stateless: the Upgrader itself keeps no state and demands no authorisation of its own (the target's upgrade/migrate demand the owner's)");
}
