// Key-agnostic scenario harnesses for the operator set (C17): only exported entry points and the
// abstract host are named (see ../gateway_api/contract.rs for the rationale), so these keep deciding
// "the set changes only by the owner adding an absent address or removing a present one" when the
// storage key of the set gets another type or shape.
use super::*;
// named explicitly: the harness must not depend on which of these the file under verification happens to import
use crate::error::ContractError;
use crate::event;
use axelar_soroban_std::ttl::extend_instance_ttl;
use axelar_soroban_std::ensure;
use axelar_soroban_std::interfaces;
use axelar_soroban_std::Ownable;
use axelar_soroban_std::Upgradable;
use soroban_sdk::contract;
use soroban_sdk::contractimpl;
use soroban_sdk::Address;
use soroban_sdk::Env;
use soroban_sdk::Symbol;
use soroban_sdk::Val;
use soroban_sdk::Vec;
use axelar_soroban_std::interfaces::OwnableInterface;
use soroban_sdk::shim::{self, Wordy};

type O = AxelarOperators;

#[kani::proof]
fn c17_api_membership_only_by_add_remove() {
    let env = Env::default();
    let _h = shim::fresh_host();
    let (x, new_owner) = (Address::symbolic(), Address::symbolic());
    let b0 = O::is_operator(env.clone(), x.clone());

    <O as OwnableInterface>::transfer_ownership(&env, new_owner);

    let b1 = O::is_operator(env.clone(), x.clone());
    soroban_sdk::obl!(b1 == b0, "OBL C17.api_membership_survives_ownership_transfer: handing the contract to a new owner neither adds nor removes an operator");
    kani::cover!(b0, "COVER c17_api member");
    kani::cover!(!b0, "COVER c17_api non-member");
}

#[kani::proof]
fn c17_api_add_then_remove() {
    let env = Env::default();
    let _h = shim::fresh_host();
    let (x, y) = (Address::symbolic(), Address::symbolic());
    kani::assume(x != y);
    let (bx0, by0) = (O::is_operator(env.clone(), x.clone()), O::is_operator(env.clone(), y.clone()));

    let r = O::add_operator(env.clone(), x.clone());
    if r.is_ok() {
        soroban_sdk::obl!(!bx0, "OBL C17.api_add_needs_absent");
        soroban_sdk::obl!(O::is_operator(env.clone(), x.clone()) && O::is_operator(env.clone(), y.clone()) == by0, "OBL C17.api_add_adds_exactly_one: the added address is an operator afterwards and nobody else's membership changes");
        let r2 = O::remove_operator(env.clone(), x.clone());
        soroban_sdk::obl!(r2.is_ok(), "OBL C17.api_remove_present_succeeds: an operator that was just added can be removed by the same owner");
        if r2.is_ok() {
            soroban_sdk::obl!(!O::is_operator(env.clone(), x.clone()) && O::is_operator(env.clone(), y.clone()) == by0, "OBL C17.api_remove_removes_exactly_one");
        }
        kani::cover!(true, "COVER c17_api added");
    } else {
        soroban_sdk::obl!(bx0, "OBL C17.api_add_err_only_if_present");
        soroban_sdk::obl!(O::is_operator(env.clone(), x.clone()) == bx0 && O::is_operator(env.clone(), y.clone()) == by0, "OBL C17.api_refused_add_changes_nothing");
        kani::cover!(true, "COVER c17_api add refused");
    }
}
