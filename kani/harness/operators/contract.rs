// Contracts and proof harnesses for contracts/axelar-operators/src/contract.rs.
use super::*;
// named explicitly: the harness must not depend on which of these the file under verification happens to import
use crate::error::ContractError;
use crate::event;
use crate::storage_types::DataKey;
use axelar_soroban_std::ttl::extend_instance_ttl;
use axelar_soroban_std::ensure;
use axelar_soroban_std::interfaces;
use axelar_soroban_std::Ownable;
use axelar_soroban_std::Upgradable;
use soroban_sdk::contract;
use soroban_sdk::contractimpl;
use soroban_sdk::Address;
use soroban_sdk::Env;
use soroban_sdk::Symbol;
use soroban_sdk::Val;
use soroban_sdk::Vec;
use soroban_sdk::shim::{self, inst, pers, temp, Wordy, Words, OWNER_KEY};

type O = AxelarOperators;

fn op_key(a: &Address) -> DataKey {
    DataKey::Operators(a.clone())
}

#[kani::proof]
fn c17_execute() {
    let env = Env::default();
    let _h = shim::fresh_host();
    let (operator, target) = (Address::symbolic(), Address::symbolic());
    let func = Symbol::symbolic();
    // arguments: a vector of arbitrary length and content (only forwarded)
    let args: Vec<Val> = Vec::abstract_symbolic();

    let r = O::execute(env.clone(), operator.clone(), target.clone(), func.clone(), args.clone());

    let is_op = inst().pre_has(&op_key(&operator));
    match r {
        Ok(v) => {
            soroban_sdk::obl!(shim::authed(&operator), "OBL C07.execute_needs_operator_auth: a call is forwarded in an operator's name only under that operator's own authorisation");
            soroban_sdk::obl!(is_op, "OBL C17.only_current_operators: the caller is in the operator set at that moment");
            let c = shim::call(0);
            soroban_sdk::obl!(
                shim::n_calls() == 1 && c.callee == target.0 && c.func == func.0 && c.args == Words::of(&args),
                "OBL C17.forwarded_intact_once: exactly one call, to exactly the named contract and function with the arguments unchanged"
            );
            soroban_sdk::obl!(shim::same_val(&v, &shim::call_ret::<Val>(0)), "OBL C17.result_handed_back_unchanged: what the target returned is handed back as it is");
            soroban_sdk::obl!(inst().n_changed() == 0 && pers().n_changed() == 0 && temp().n_changed() == 0 && shim::n_events() == 0, "OBL C17.execute_frame");
            kani::cover!(true, "COVER execute ok");
        }
        Err(e) => {
            soroban_sdk::obl!(!is_op && e == ContractError::NotAnOperator, "OBL C17.execute_err_only_non_operator");
            soroban_sdk::obl!(shim::no_effects(), "OBL C17.refused_execute_no_effect: nothing is forwarded for a non-operator");
            kani::cover!(true, "COVER execute err");
        }
    }
}

#[kani::proof]
fn c17_add_operator() {
    let env = Env::default();
    let _h = shim::fresh_host();
    let a = Address::symbolic();
    let r = O::add_operator(env.clone(), a.clone());
    let owner: Option<Address> = inst().pre(&OWNER_KEY);
    let was = inst().pre_has(&op_key(&a));
    match r {
        Ok(()) => {
            soroban_sdk::obl!(matches!(&owner, Some(o) if shim::authed(o)), "OBL C06.add_operator_needs_owner: the operator set changes only under the authorisation of the owner stored at entry");
            soroban_sdk::obl!(!was && inst().post_has(&op_key(&a)), "OBL C17.add_absent_to_present: only an absent address is added");
            soroban_sdk::obl!(inst().changed_only(&[Words::of(&op_key(&a))]) && pers().n_changed() == 0 && shim::n_calls() == 0, "OBL C17.add_frame: no other member changes");
            soroban_sdk::obl!(shim::n_events() == 1 && shim::event_is(0, &(Symbol::new(&env, "operator_added"), a.clone()), &()), "OBL C17.add_event");
            kani::cover!(true, "COVER add_operator ok");
        }
        Err(e) => {
            soroban_sdk::obl!(was && e == ContractError::OperatorAlreadyAdded, "OBL C17.add_err_only_if_present");
            soroban_sdk::obl!(shim::no_effects(), "OBL C17.refused_add_no_effect");
            kani::cover!(true, "COVER add_operator err");
        }
    }
}

#[kani::proof]
fn c17_remove_operator() {
    let env = Env::default();
    let _h = shim::fresh_host();
    let a = Address::symbolic();
    let r = O::remove_operator(env.clone(), a.clone());
    let owner: Option<Address> = inst().pre(&OWNER_KEY);
    let was = inst().pre_has(&op_key(&a));
    match r {
        Ok(()) => {
            soroban_sdk::obl!(matches!(&owner, Some(o) if shim::authed(o)), "OBL C06.remove_operator_needs_owner");
            soroban_sdk::obl!(was && !inst().post_has(&op_key(&a)), "OBL C17.remove_present_to_absent: only a present address is removed");
            soroban_sdk::obl!(inst().changed_only(&[Words::of(&op_key(&a))]) && pers().n_changed() == 0 && shim::n_calls() == 0, "OBL C17.remove_frame");
            soroban_sdk::obl!(shim::n_events() == 1 && shim::event_is(0, &(Symbol::new(&env, "operator_removed"), a.clone()), &()), "OBL C17.remove_event");
            kani::cover!(true, "COVER remove_operator ok");
        }
        Err(e) => {
            soroban_sdk::obl!(!was && e == ContractError::NotAnOperator, "OBL C17.remove_err_only_if_absent");
            soroban_sdk::obl!(shim::no_effects(), "OBL C17.refused_remove_no_effect");
            kani::cover!(true, "COVER remove_operator err");
        }
    }
}

#[kani::proof]
fn c17_is_operator_and_ctor() {
    let env = Env::default();
    let _h = shim::fresh_host();
    let a = Address::symbolic();
    let r = O::is_operator(env.clone(), a.clone());
    soroban_sdk::obl!(r == inst().pre_has(&op_key(&a)), "OBL C17.query_agrees_with_set");
    soroban_sdk::obl!(shim::no_effects() && shim::n_auth() == 0, "OBL C17.query_pure");
    let owner = Address::symbolic();
    O::__constructor(env.clone(), owner.clone());
    soroban_sdk::obl!(inst().post::<_, Address>(&OWNER_KEY) == Some(owner) && inst().changed_only(&[Words::of(&OWNER_KEY)]), "OBL C17.ctor_sets_owner_only: the operator set starts as it was (empty on a fresh contract)");
    kani::cover!(r, "COVER is_operator true");
    kani::cover!(!r, "COVER is_operator false");
}

soroban_sdk::harness_ownable!(AxelarOperators, c06_operators_transfer_ownership);
soroban_sdk::harness_upgradable!(AxelarOperators, ContractError, c15_operators_upgrade, c15_operators_migrate);
