// Key-agnostic scenario harnesses for the gateway's message registry (C02).
//
// The main harnesses (../gateway/contract.rs) state the contracts over the storage keys of the
// repository (`DataKey::MessageApproval(MessageApprovalKey { source_chain, message_id })`); when a
// change gives those keys another type or shape they stop compiling and the check is "undecided".
// The harnesses here name ONLY exported entry points and the abstract host, and are compiled as a
// separate unit, so they keep deciding the clauses that can be put in terms of the public queries —
// for every message, every pre-state and whatever the key encoding is:
//   * distinct (source chain, message id) pairs have independent records;
//   * approve -> approved -> consumed once -> executed, never back.
use super::*;
// named explicitly: the harness must not depend on which of these the file under verification happens to import
use crate::error::ContractError;
use crate::interface::AxelarGatewayInterface;
use crate::messaging_interface::AxelarGatewayMessagingInterface;
use crate::types::CommandType;
use crate::types::Message;
use crate::types::Proof;
use crate::types::WeightedSigners;
use crate::auth;
use crate::event;
use axelar_soroban_std::ttl::extend_instance_ttl;
use axelar_soroban_std::ensure;
use axelar_soroban_std::interfaces;
use axelar_soroban_std::Operatable;
use axelar_soroban_std::Ownable;
use axelar_soroban_std::Upgradable;
use soroban_sdk::xdr::ToXdr;
use soroban_sdk::contract;
use soroban_sdk::contractimpl;
use soroban_sdk::Address;
use soroban_sdk::Bytes;
use soroban_sdk::BytesN;
use soroban_sdk::Env;
use soroban_sdk::String;
use soroban_sdk::Vec;
use soroban_sdk::shim::{self, Wordy};

type G = AxelarGateway;

/// contract stub of auth::validate_proof: any verdict (read-only)
pub fn validate_proof_any(_env: &Env, _data_hash: &BytesN<32>, _proof: Proof) -> Result<bool, ContractError> {
    if kani::any() {
        Ok(kani::any())
    } else {
        Err(<ContractError as Wordy>::symbolic())
    }
}
fn sym_message() -> Message {
    Message {
        source_chain: String::symbolic(),
        message_id: String::symbolic(),
        source_address: String::symbolic(),
        contract_address: Address::symbolic(),
        payload_hash: BytesN::symbolic(),
    }
}
fn sym_proof() -> Proof {
    Proof { signers: Vec::abstract_symbolic(), threshold: kani::any(), nonce: BytesN::symbolic() }
}
fn approved(env: &Env, m: &Message) -> bool {
    <G as AxelarGatewayMessagingInterface>::is_message_approved(env.clone(), m.source_chain.clone(), m.message_id.clone(), m.source_address.clone(), m.contract_address.clone(), m.payload_hash)
}
fn executed(env: &Env, m: &Message) -> bool {
    <G as AxelarGatewayMessagingInterface>::is_message_executed(env.clone(), m.source_chain.clone(), m.message_id.clone())
}

#[kani::proof]
#[kani::stub(crate::auth::validate_proof, validate_proof_any)]
fn c02_api_other_ids_untouched() {
    let env = Env::default();
    let _h = shim::fresh_host();
    let (m1, m2) = (sym_message(), sym_message());
    kani::assume(!(m1.source_chain == m2.source_chain && m1.message_id == m2.message_id));
    let (a0, x0) = (approved(&env, &m2), executed(&env, &m2));
    let mut batch: Vec<Message> = Vec::new(&env);
    batch.push_back(m1.clone());

    let r = <G as AxelarGatewayInterface>::approve_messages(env.clone(), batch, sym_proof());

    if r.is_ok() {
        let (a1, x1) = (approved(&env, &m2), executed(&env, &m2));
        soroban_sdk::obl!(
            a1 == a0 && x1 == x0,
            "OBL C02.api_other_ids_untouched: approving (source chain, message id) leaves the status of every other pair exactly as it was — distinct pairs never share a record, whatever the storage key looks like"
        );
        kani::cover!(a0, "COVER c02_api other id approved");
        kani::cover!(x0, "COVER c02_api other id executed");
    }
}

#[kani::proof]
#[kani::stub(crate::auth::validate_proof, validate_proof_any)]
fn c02_api_lifecycle() {
    let env = Env::default();
    let _h = shim::fresh_host();
    let m = sym_message();
    let (a0, x0) = (approved(&env, &m), executed(&env, &m));
    let mut batch: Vec<Message> = Vec::new(&env);
    batch.push_back(m.clone());

    let r = <G as AxelarGatewayInterface>::approve_messages(env.clone(), batch, sym_proof());
    if r.is_err() {
        return;
    }
    let (a1, x1) = (approved(&env, &m), executed(&env, &m));
    soroban_sdk::obl!(x1 == x0, "OBL C02.api_approve_never_executes: an approval step neither executes a message nor takes an executed one back");
    soroban_sdk::obl!(!(a0 && !a1), "OBL C02.api_approved_stays_approved: re-submitting an approved message does not lose the approval");
    soroban_sdk::obl!(!(x1 && a1), "OBL C02.api_executed_is_not_approved: an executed id is never (again) approved");

    let v = <G as AxelarGatewayMessagingInterface>::validate_message(env.clone(), m.contract_address.clone(), m.source_chain.clone(), m.message_id.clone(), m.source_address.clone(), m.payload_hash);
    let (a2, x2) = (approved(&env, &m), executed(&env, &m));
    soroban_sdk::obl!(v == a1, "OBL C02.api_consume_iff_approved: the destination consumes the message exactly when it is reported approved for exactly these details");
    soroban_sdk::obl!(x2 == (x1 || v) && !(v && a2), "OBL C02.api_consumed_is_executed: a consumed message is executed and no longer approved; a refused consumption changes nothing visible");

    let v2 = <G as AxelarGatewayMessagingInterface>::validate_message(env.clone(), m.contract_address.clone(), m.source_chain.clone(), m.message_id.clone(), m.source_address.clone(), m.payload_hash);
    soroban_sdk::obl!(!(v && v2), "OBL C02.api_consumed_once: a message is consumed at most once");
    kani::cover!(v, "COVER c02_api consumed");
    kani::cover!(!v && x1, "COVER c02_api already executed");
    kani::cover!(!v && !x1, "COVER c02_api not approved for this");
}

/// From an EMPTY message registry (a freshly constructed gateway): one valid batch with two messages
/// of distinct (source chain, message id) pairs approves both — two distinct pairs never land on one
/// record.  (The pre-state of the other harnesses is arbitrary, where "this id is unknown" cannot be
/// said through the public queries alone.)
#[kani::proof]
#[kani::stub(crate::auth::validate_proof, validate_proof_any)]
fn c02_api_two_distinct_ids_from_empty_registry() {
    let env = Env::default();
    let _h = shim::fresh_host();
    shim::pers().starts_empty = true;
    let (m1, m2) = (sym_message(), sym_message());
    kani::assume(!(m1.source_chain == m2.source_chain && m1.message_id == m2.message_id));
    let mut batch: Vec<Message> = Vec::new(&env);
    batch.push_back(m1.clone());
    batch.push_back(m2.clone());

    let r = <G as AxelarGatewayInterface>::approve_messages(env.clone(), batch, sym_proof());

    if r.is_ok() {
        soroban_sdk::obl!(
            approved(&env, &m1) && approved(&env, &m2) && shim::n_events() == 2,
            "OBL C02.api_distinct_ids_distinct_records: from an empty registry, a valid batch of two messages with distinct (source chain, message id) pairs leaves BOTH approved and announces both"
        );
        soroban_sdk::obl!(!executed(&env, &m1) && !executed(&env, &m2), "OBL C02.api_fresh_approval_not_executed");
        kani::cover!(true, "COVER c02_api two approved");
    }
}
