// Contracts and proof harnesses for contracts/interchain-token/src/contract.rs (every entry point).
use super::*;
// named explicitly: the harness must not depend on which of these the file under verification happens to import
use axelar_soroban_std::token::validate_token_metadata;
use axelar_soroban_std::ttl::extend_instance_ttl;
use axelar_soroban_std::ttl::extend_persistent_ttl;
use soroban_token_sdk::metadata::TokenMetadata;
use soroban_token_sdk::TokenUtils;
use crate::error::ContractError;
use crate::event;
use crate::storage_types::DataKey;
use crate::interface::InterchainTokenInterface;
use crate::storage_types::AllowanceDataKey;
use crate::storage_types::AllowanceValue;
use axelar_soroban_std::interfaces::OwnableInterface;
use axelar_soroban_std::interfaces;
use axelar_soroban_std::Upgradable;
use soroban_sdk::token::StellarAssetInterface;
use soroban_sdk::token::TokenInterface;
use soroban_sdk::assert_with_error;
use soroban_sdk::contract;
use soroban_sdk::contractimpl;
use soroban_sdk::panic_with_error;
use soroban_sdk::token;
use soroban_sdk::Address;
use soroban_sdk::BytesN;
use soroban_sdk::Env;
use soroban_sdk::String;
use soroban_token_sdk::event::Events as TokenEvents;
use soroban_sdk::shim::{self, inst, pers, temp, Wordy, Words, OWNER_KEY};
use soroban_sdk::{symbol_short, Symbol};

type T = InterchainToken;

fn addr() -> Address {
    Address::symbolic()
}
fn bal_key(a: &Address) -> DataKey {
    DataKey::Balance(a.clone())
}
fn allow_key(from: &Address, spender: &Address) -> DataKey {
    DataKey::Allowance(AllowanceDataKey { from: from.clone(), spender: spender.clone() })
}
/// pre-state balance (absent = 0); the token invariant "no balance is negative" is assumed here
/// and asserted again after every operation
fn bal_pre(a: &Address) -> i128 {
    let b = pers().pre::<_, i128>(&bal_key(a)).unwrap_or(0);
    kani::assume(b >= 0);
    b
}
fn bal_post(a: &Address) -> i128 {
    pers().post::<_, i128>(&bal_key(a)).unwrap_or(0)
}
/// pre-state allowance record (absent = (0, 0)); invariant "no allowance is negative"
fn allow_pre(from: &Address, spender: &Address) -> (i128, u32) {
    match temp().pre::<_, AllowanceValue>(&allow_key(from, spender)) {
        Some(a) => {
            kani::assume(a.amount >= 0);
            (a.amount, a.expiration_ledger)
        }
        None => (0, 0),
    }
}
fn allow_post(from: &Address, spender: &Address) -> (i128, u32) {
    match temp().post::<_, AllowanceValue>(&allow_key(from, spender)) {
        Some(a) => (a.amount, a.expiration_ledger),
        None => (0, 0),
    }
}
/// usable amount: the whole allowance up to and including its expiration ledger, nothing afterwards
fn usable((amount, exp): (i128, u32)) -> i128 {
    if exp < shim::host().sequence {
        0
    } else {
        amount
    }
}

// ------------------------------------------------------------------------------------------------ transfer
#[kani::proof]
fn c12_transfer() {
    let env = Env::default();
    let _h = shim::fresh_host();
    let (from, to) = (addr(), addr());
    let amount: i128 = kani::any();
    let (bf0, bt0) = (bal_pre(&from), bal_pre(&to));

    <T as token::Interface>::transfer(env.clone(), from.clone(), to.clone(), amount);

    soroban_sdk::obl!(shim::authed(&from), "OBL C07.transfer_needs_from: a transfer debits `from` only under `from`'s own authorisation");
    soroban_sdk::obl!(amount >= 0, "OBL C12.transfer_rejects_negative");
    soroban_sdk::obl!(bf0 >= amount, "OBL C12.transfer_needs_balance");
    if from != to {
        soroban_sdk::obl!(bal_post(&from) == bf0 - amount && bal_post(&to) == bt0.wrapping_add(amount), "OBL C12.transfer_moves_exact_amount: exactly `amount` leaves one balance and enters the other");
    } else {
        soroban_sdk::obl!(bal_post(&from) == bf0, "OBL C12.self_transfer_neutral");
    }
    soroban_sdk::obl!(bal_post(&from) >= 0 && bal_post(&to) >= 0, "OBL C12.balances_stay_nonnegative");
    soroban_sdk::obl!(
        pers().changed_only(&[Words::of(&bal_key(&from)), Words::of(&bal_key(&to))]) && inst().n_changed() == 0 && temp().n_changed() == 0 && shim::n_calls() == 0,
        "OBL C12.transfer_frame: no other balance, allowance or setting changes (total supply unchanged)"
    );
    soroban_sdk::obl!(shim::n_events() == 1 && shim::event_is(0, &(symbol_short!("transfer"), from.clone(), to.clone()), &amount), "OBL C12.transfer_event: one standard transfer event naming the true parties and amount");
    kani::cover!(from != to && amount > 0, "COVER c12_transfer moved");
    kani::cover!(from == to, "COVER c12_transfer self");
}

#[kani::proof]
fn c12_transfer_notrap() {
    let env = Env::default();
    let _h = shim::fresh_host();
    let (from, to) = (addr(), addr());
    let amount: i128 = kani::any();
    let (bf0, bt0) = (bal_pre(&from), bal_pre(&to));
    // honest call: authorised, non-negative, covered by the balance, recipient balance does not overflow
    kani::assume(shim::auth_granted(from.0) && amount >= 0 && bf0 >= amount && bt0.checked_add(amount).is_some());
    shim::set_no_trap_mode();
    <T as token::Interface>::transfer(env.clone(), from.clone(), to.clone(), amount);
    soroban_sdk::obl!(true, "OBL C12.transfer_accepts_honest_call: reached the end without a trap");
    kani::cover!(true, "COVER c12_transfer_notrap returned");
}

// ------------------------------------------------------------------------------------------------ approve / allowance
#[kani::proof]
fn c12_approve() {
    let env = Env::default();
    let h = shim::fresh_host();
    let seq = h.sequence;
    let (from, spender) = (addr(), addr());
    let amount: i128 = kani::any();
    let exp: u32 = kani::any();

    <T as token::Interface>::approve(env.clone(), from.clone(), spender.clone(), amount, exp);

    soroban_sdk::obl!(shim::authed(&from), "OBL C07.approve_needs_from: an allowance over `from`'s funds is granted only under `from`'s authorisation");
    soroban_sdk::obl!(amount >= 0, "OBL C12.approve_rejects_negative");
    soroban_sdk::obl!(!(amount > 0 && exp < seq), "OBL C12.approve_rejects_past_expiration");
    soroban_sdk::obl!(allow_post(&from, &spender) == (amount, exp), "OBL C12.approve_stores_exact");
    soroban_sdk::obl!(
        amount == 0 || matches!(shim::temp_ttl_requested(&allow_key(&from, &spender)), Some(l) if (l as u64) + (seq as u64) >= exp as u64),
        "OBL C12.allowance_lives_until_expiration: for a positive allowance the entry's lifetime is extended at least up to its expiration ledger (usable up to and including it)"
    );
    soroban_sdk::obl!(temp().changed_only(&[Words::of(&allow_key(&from, &spender))]) && pers().n_changed() == 0 && inst().n_changed() == 0, "OBL C12.approve_frame: only the allowance of exactly (from, spender) changes");
    soroban_sdk::obl!(shim::n_events() == 1 && shim::event_is(0, &(Symbol::new(&env, "approve"), from.clone(), spender.clone()), &(amount, exp)), "OBL C12.approve_event");
    kani::cover!(amount > 0 && exp == seq, "COVER c12_approve expiring this ledger");
}

#[kani::proof]
fn c12_allowance_query() {
    let env = Env::default();
    let _h = shim::fresh_host();
    let (from, spender) = (addr(), addr());
    let a0 = allow_pre(&from, &spender);
    let r = <T as token::Interface>::allowance(env.clone(), from.clone(), spender.clone());
    soroban_sdk::obl!(r == usable(a0), "OBL C12.allowance_expiry: an allowance reads as granted up to and including its expiration ledger and as zero afterwards");
    soroban_sdk::obl!(shim::no_effects() && shim::n_auth() == 0, "OBL C12.allowance_query_pure");
    kani::cover!(a0.0 > 0 && a0.1 == shim::host().sequence && r > 0, "COVER c12_allowance usable on the expiration ledger");
    kani::cover!(a0.0 > 0 && a0.1.wrapping_add(1) == shim::host().sequence && a0.1 < u32::MAX && r == 0, "COVER c12_allowance worthless one ledger later");
}

#[kani::proof]
fn c12_balance_query() {
    let env = Env::default();
    let _h = shim::fresh_host();
    let a = addr();
    let b0 = pers().pre::<_, i128>(&bal_key(&a)).unwrap_or(0);
    let r = <T as token::Interface>::balance(env.clone(), a.clone());
    soroban_sdk::obl!(r == b0, "OBL C12.balance_query_agrees");
    soroban_sdk::obl!(shim::no_effects() && shim::n_auth() == 0, "OBL C12.balance_query_pure");
    kani::cover!(r != 0, "COVER c12_balance nonzero");
}

// ------------------------------------------------------------------------------------------------ transfer_from / burn / burn_from
#[kani::proof]
fn c12_transfer_from() {
    let env = Env::default();
    let _h = shim::fresh_host();
    let (spender, from, to) = (addr(), addr(), addr());
    let amount: i128 = kani::any();
    let (bf0, bt0) = (bal_pre(&from), bal_pre(&to));
    let a0 = allow_pre(&from, &spender);

    <T as token::Interface>::transfer_from(env.clone(), spender.clone(), from.clone(), to.clone(), amount);

    soroban_sdk::obl!(shim::authed(&spender), "OBL C07.transfer_from_needs_spender: a delegated transfer needs the spender's own authorisation");
    soroban_sdk::obl!(amount >= 0, "OBL C12.transfer_from_rejects_negative");
    soroban_sdk::obl!(usable(a0) >= amount, "OBL C12.transfer_from_needs_live_allowance: the allowance of exactly (from, spender) must cover the amount and not be expired");
    soroban_sdk::obl!(bf0 >= amount, "OBL C12.transfer_from_needs_balance");
    soroban_sdk::obl!(
        if amount > 0 { allow_post(&from, &spender) == (a0.0 - amount, a0.1) } else { !temp().changed(&allow_key(&from, &spender)) },
        "OBL C12.transfer_from_spends_allowance_exactly: the allowance drops by exactly the amount spent, its expiration is kept"
    );
    if from != to {
        soroban_sdk::obl!(bal_post(&from) == bf0 - amount && bal_post(&to) == bt0.wrapping_add(amount), "OBL C12.transfer_from_moves_exact_amount: the debit is against `from`, the credit goes to `to`");
    } else {
        soroban_sdk::obl!(bal_post(&from) == bf0, "OBL C12.transfer_from_self_neutral");
    }
    soroban_sdk::obl!(bal_post(&from) >= 0 && bal_post(&to) >= 0 && allow_post(&from, &spender).0 >= 0, "OBL C12.transfer_from_nonnegative");
    soroban_sdk::obl!(
        pers().changed_only(&[Words::of(&bal_key(&from)), Words::of(&bal_key(&to))]) && temp().changed_only(&[Words::of(&allow_key(&from, &spender))]) && inst().n_changed() == 0,
        "OBL C12.transfer_from_frame"
    );
    soroban_sdk::obl!(shim::n_events() == 1 && shim::event_is(0, &(symbol_short!("transfer"), from.clone(), to.clone()), &amount), "OBL C12.transfer_from_event");
    kani::cover!(amount > 0 && from != to && a0.1 == shim::host().sequence, "COVER c12_transfer_from on expiration ledger");
    kani::cover!(amount == 0, "COVER c12_transfer_from zero");
}

#[kani::proof]
fn c12_transfer_from_notrap() {
    let env = Env::default();
    let _h = shim::fresh_host();
    let (spender, from, to) = (addr(), addr(), addr());
    let amount: i128 = kani::any();
    let (bf0, bt0) = (bal_pre(&from), bal_pre(&to));
    let a0 = allow_pre(&from, &spender);
    kani::assume(shim::auth_granted(spender.0) && amount >= 0 && bf0 >= amount && bt0.checked_add(amount).is_some() && usable(a0) >= amount);
    shim::set_no_trap_mode();
    <T as token::Interface>::transfer_from(env.clone(), spender.clone(), from.clone(), to.clone(), amount);
    soroban_sdk::obl!(true, "OBL C12.transfer_from_accepts_live_allowance: a sufficient, unexpired allowance (also on its expiration ledger) is honoured");
    kani::cover!(amount > 0 && a0.1 == shim::host().sequence, "COVER c12_transfer_from_notrap on expiration ledger");
}

#[kani::proof]
fn c12_burn() {
    let env = Env::default();
    let _h = shim::fresh_host();
    let from = addr();
    let amount: i128 = kani::any();
    let bf0 = bal_pre(&from);

    <T as token::Interface>::burn(env.clone(), from.clone(), amount);

    soroban_sdk::obl!(shim::authed(&from), "OBL C07.burn_needs_from: tokens are burned only under their holder's authorisation");
    soroban_sdk::obl!(amount >= 0 && bf0 >= amount, "OBL C12.burn_needs_balance");
    soroban_sdk::obl!(bal_post(&from) == bf0 - amount && bal_post(&from) >= 0, "OBL C12.burn_removes_exact_amount: one balance (and hence the supply) drops by exactly the amount");
    soroban_sdk::obl!(pers().changed_only(&[Words::of(&bal_key(&from))]) && inst().n_changed() == 0 && temp().n_changed() == 0 && shim::n_calls() == 0, "OBL C12.burn_frame");
    soroban_sdk::obl!(shim::n_events() == 1 && shim::event_is(0, &(symbol_short!("burn"), from.clone()), &amount), "OBL C12.burn_event");
    kani::cover!(amount > 0, "COVER c12_burn positive");
}

#[kani::proof]
fn c12_burn_from() {
    let env = Env::default();
    let _h = shim::fresh_host();
    let (spender, from) = (addr(), addr());
    let amount: i128 = kani::any();
    let bf0 = bal_pre(&from);
    let a0 = allow_pre(&from, &spender);

    <T as token::Interface>::burn_from(env.clone(), spender.clone(), from.clone(), amount);

    soroban_sdk::obl!(shim::authed(&spender), "OBL C07.burn_from_needs_spender");
    soroban_sdk::obl!(amount >= 0 && bf0 >= amount, "OBL C12.burn_from_needs_balance");
    soroban_sdk::obl!(usable(a0) >= amount, "OBL C12.burn_from_needs_live_allowance");
    soroban_sdk::obl!(
        if amount > 0 { allow_post(&from, &spender) == (a0.0 - amount, a0.1) } else { !temp().changed(&allow_key(&from, &spender)) },
        "OBL C12.burn_from_spends_allowance_exactly"
    );
    soroban_sdk::obl!(bal_post(&from) == bf0 - amount && bal_post(&from) >= 0, "OBL C12.burn_from_removes_exact_amount: the debit is against `from`");
    soroban_sdk::obl!(
        pers().changed_only(&[Words::of(&bal_key(&from))]) && temp().changed_only(&[Words::of(&allow_key(&from, &spender))]) && inst().n_changed() == 0,
        "OBL C12.burn_from_frame"
    );
    soroban_sdk::obl!(shim::n_events() == 1 && shim::event_is(0, &(symbol_short!("burn"), from.clone()), &amount), "OBL C12.burn_from_event");
    kani::cover!(amount > 0, "COVER c12_burn_from positive");
}

// ------------------------------------------------------------------------------------------------ minting
#[kani::proof]
fn c12_mint_from() {
    let env = Env::default();
    let _h = shim::fresh_host();
    let (minter, to) = (addr(), addr());
    let amount: i128 = kani::any();
    let bt0 = bal_pre(&to);

    let r = <T as InterchainTokenInterface>::mint_from(&env, minter.clone(), to.clone(), amount);

    let was_minter = inst().pre_has(&DataKey::Minter(minter.clone()));
    match r {
        Ok(()) => {
            soroban_sdk::obl!(shim::authed(&minter), "OBL C07.mint_from_needs_minter: minting in a minter's name needs that minter's own authorisation");
            soroban_sdk::obl!(was_minter, "OBL C12.only_current_minters_mint: the address must hold the minter role at the time of the call");
            soroban_sdk::obl!(amount >= 0, "OBL C12.mint_rejects_negative");
            soroban_sdk::obl!(bal_post(&to) == bt0.wrapping_add(amount) && bal_post(&to) >= 0, "OBL C12.mint_adds_exact_amount: one balance (and hence the supply) grows by exactly the amount");
            soroban_sdk::obl!(pers().changed_only(&[Words::of(&bal_key(&to))]) && inst().n_changed() == 0 && temp().n_changed() == 0 && shim::n_calls() == 0, "OBL C12.mint_frame");
            soroban_sdk::obl!(shim::n_events() == 1 && shim::event_is(0, &(symbol_short!("mint"), minter.clone(), to.clone()), &amount), "OBL C12.mint_event");
            kani::cover!(amount > 0, "COVER c12_mint_from ok");
        }
        Err(e) => {
            soroban_sdk::obl!(!was_minter && e == ContractError::NotMinter, "OBL C12.mint_err_only_for_non_minter");
            soroban_sdk::obl!(shim::no_effects(), "OBL C12.refused_mint_no_effect");
            kani::cover!(true, "COVER c12_mint_from err");
        }
    }
}

#[kani::proof]
fn c12_owner_mint() {
    let env = Env::default();
    let _h = shim::fresh_host();
    let to = addr();
    let amount: i128 = kani::any();
    let bt0 = bal_pre(&to);

    <T as StellarAssetInterface>::mint(env.clone(), to.clone(), amount);

    let owner: Option<Address> = inst().pre(&OWNER_KEY);
    soroban_sdk::obl!(matches!(&owner, Some(o) if shim::authed(o)), "OBL C06.owner_mint_needs_owner: owner minting needs the authorisation of the owner stored at entry");
    soroban_sdk::obl!(matches!(&owner, Some(o) if inst().pre_has(&DataKey::Minter(o.clone()))), "OBL C12.owner_mint_needs_minter_role");
    soroban_sdk::obl!(amount >= 0 && bal_post(&to) == bt0.wrapping_add(amount), "OBL C12.owner_mint_adds_exact_amount");
    soroban_sdk::obl!(pers().changed_only(&[Words::of(&bal_key(&to))]) && inst().n_changed() == 0 && temp().n_changed() == 0, "OBL C12.owner_mint_frame");
    let o = owner.unwrap_or(Address(0));
    soroban_sdk::obl!(shim::n_events() == 1 && shim::event_is(0, &(symbol_short!("mint"), o, to.clone()), &amount), "OBL C12.owner_mint_event");
    kani::cover!(amount > 0, "COVER c12_owner_mint ok");
}

#[kani::proof]
fn c06_token_add_minter() {
    let env = Env::default();
    let _h = shim::fresh_host();
    let m = addr();
    <T as InterchainTokenInterface>::add_minter(&env, m.clone());
    let owner: Option<Address> = inst().pre(&OWNER_KEY);
    soroban_sdk::obl!(matches!(&owner, Some(o) if shim::authed(o)), "OBL C06.add_minter_needs_owner");
    soroban_sdk::obl!(inst().post_has(&DataKey::Minter(m.clone())), "OBL C06.add_minter_grants_role");
    soroban_sdk::obl!(inst().changed_only(&[Words::of(&DataKey::Minter(m.clone()))]) && pers().n_changed() == 0 && temp().n_changed() == 0, "OBL C06.add_minter_frame");
    soroban_sdk::obl!(shim::n_events() == 1 && shim::event_is(0, &(Symbol::new(&env, "minter_added"), m.clone()), &()), "OBL C06.add_minter_event");
    kani::cover!(true, "COVER add_minter returned");
}

#[kani::proof]
fn c06_token_remove_minter() {
    let env = Env::default();
    let _h = shim::fresh_host();
    let m = addr();
    <T as InterchainTokenInterface>::remove_minter(&env, m.clone());
    let owner: Option<Address> = inst().pre(&OWNER_KEY);
    soroban_sdk::obl!(matches!(&owner, Some(o) if shim::authed(o)), "OBL C06.remove_minter_needs_owner");
    soroban_sdk::obl!(!inst().post_has(&DataKey::Minter(m.clone())), "OBL C06.remove_minter_revokes_role");
    soroban_sdk::obl!(inst().changed_only(&[Words::of(&DataKey::Minter(m.clone()))]) && pers().n_changed() == 0 && temp().n_changed() == 0, "OBL C06.remove_minter_frame");
    soroban_sdk::obl!(shim::n_events() == 1 && shim::event_is(0, &(Symbol::new(&env, "minter_removed"), m.clone()), &()), "OBL C06.remove_minter_event");
    kani::cover!(true, "COVER remove_minter returned");
}

// ------------------------------------------------------------------------------------------------ administrator change
soroban_sdk::harness_ownable!(InterchainToken, c06_token_transfer_ownership);

fn admin_change(via_set_admin: bool) {
    let env = Env::default();
    let _h = shim::fresh_host();
    let new_owner = addr();
    if via_set_admin {
        <T as StellarAssetInterface>::set_admin(env.clone(), new_owner.clone());
    } else {
        <T as OwnableInterface>::transfer_ownership(&env, new_owner.clone());
    }
    let prev: Option<Address> = inst().pre(&OWNER_KEY);
    soroban_sdk::obl!(matches!(&prev, Some(p) if shim::authed(p)), "OBL C06.set_admin_needs_owner");
    soroban_sdk::obl!(inst().post::<_, Address>(&OWNER_KEY) == Some(new_owner.clone()), "OBL C06.set_admin_successor_exact");
    let p = prev.unwrap_or(Address(0));
    soroban_sdk::obl!(
        shim::n_events() == 2 && shim::event_is(1, &(symbol_short!("set_admin"), p), &new_owner),
        "OBL C12.set_admin_event: the standard administrator-change event names the previous administrator (topic) and the new one (data)"
    );
    kani::cover!(true, "COVER admin change returned");
}
#[kani::proof]
fn c12_set_admin() {
    admin_change(true)
}
#[kani::proof]
fn c12_transfer_ownership_event() {
    admin_change(false)
}

soroban_sdk::harness_upgradable!(InterchainToken, ContractError, c15_token_upgrade, c15_token_migrate);

// ------------------------------------------------------------------------------------------------ constructor and read-only views (C11)
#[kani::proof]
fn c11_token_constructor() {
    let env = Env::default();
    let _h = shim::fresh_host();
    let owner = addr();
    let minter: Option<Address> = Option::<Address>::symbolic();
    let token_id: BytesN<32> = BytesN::symbolic();
    let md = TokenMetadata { decimal: kani::any(), name: String::symbolic(), symbol: String::symbolic() };

    T::__constructor(env.clone(), owner.clone(), minter.clone(), token_id, md.clone());

    soroban_sdk::obl!(md.decimal <= 255 && !md.name.is_empty() && !md.symbol.is_empty(), "OBL C11.token_ctor_validates_metadata");
    soroban_sdk::obl!(inst().post::<_, Address>(&OWNER_KEY) == Some(owner.clone()), "OBL C11.token_owned_by_deployer_arg: the token is owned by the address passed as owner (the service)");
    soroban_sdk::obl!(inst().post::<_, BytesN<32>>(&DataKey::TokenId) == Some(token_id), "OBL C11.token_reports_id");
    let stored: Option<TokenMetadata> = inst().post(&shim::UnitKey("METADATA"));
    soroban_sdk::obl!(matches!(&stored, Some(s) if s.decimal == md.decimal && s.name == md.name && s.symbol == md.symbol), "OBL C11.token_reports_metadata");
    soroban_sdk::obl!(inst().post_has(&DataKey::Minter(owner.clone())), "OBL C11.owner_is_minter: the owner (the service) can mint for inbound transfers");
    soroban_sdk::obl!(match &minter { Some(m) => inst().post_has(&DataKey::Minter(m.clone())), None => true }, "OBL C11.designated_minter_is_minter");
    let mut allowed = [Words::of(&OWNER_KEY), Words::of(&DataKey::TokenId), Words::of(&shim::UnitKey("METADATA")), Words::of(&DataKey::Minter(owner.clone())), Words::of(&DataKey::Minter(owner.clone()))];
    if let Some(m) = &minter {
        allowed[4] = Words::of(&DataKey::Minter(m.clone()));
    }
    soroban_sdk::obl!(inst().changed_only(&allowed) && pers().n_changed() == 0 && temp().n_changed() == 0, "OBL C11.minting_rights_to_service_and_designated_minter_only: no other role, balance or setting is written");
    kani::cover!(minter.is_some(), "COVER token ctor with minter");
    kani::cover!(minter.is_none(), "COVER token ctor without minter");
}

#[kani::proof]
fn c11_token_views() {
    let env = Env::default();
    let _h = shim::fresh_host();
    let a = addr();
    let admin = <T as StellarAssetInterface>::admin(env.clone());
    soroban_sdk::obl!(inst().pre::<_, Address>(&OWNER_KEY) == Some(admin), "OBL C11.view_admin_is_owner: the token reports its owner (the service) as administrator");
    let id = <T as InterchainTokenInterface>::token_id(&env);
    let im = <T as InterchainTokenInterface>::is_minter(&env, a.clone());
    let dec = <T as token::Interface>::decimals(env.clone());
    let name = <T as token::Interface>::name(env.clone());
    let sym = <T as token::Interface>::symbol(env.clone());
    let md: Option<TokenMetadata> = inst().pre(&shim::UnitKey("METADATA"));
    soroban_sdk::obl!(inst().pre::<_, BytesN<32>>(&DataKey::TokenId) == Some(id), "OBL C11.view_token_id");
    soroban_sdk::obl!(im == inst().pre_has(&DataKey::Minter(a.clone())), "OBL C11.view_is_minter");
    soroban_sdk::obl!(matches!(&md, Some(m) if m.decimal == dec && m.name == name && m.symbol == sym), "OBL C11.view_metadata");
    soroban_sdk::obl!(shim::no_effects() && shim::n_auth() == 0, "OBL C11.views_pure");
    kani::cover!(im, "COVER token views minter");
}

// ------------------------------------------------------------------------------------------------ more positive halves (no-trap mode)
#[kani::proof]
fn c12_burn_notrap() {
    let env = Env::default();
    let _h = shim::fresh_host();
    let from = addr();
    let amount: i128 = kani::any();
    let bf0 = bal_pre(&from);
    kani::assume(shim::auth_granted(from.0) && amount >= 0 && bf0 >= amount);
    shim::set_no_trap_mode();
    <T as token::Interface>::burn(env.clone(), from.clone(), amount);
    soroban_sdk::obl!(true, "OBL C12.burn_accepts_honest_call: an authorised burn covered by the balance is accepted");
    kani::cover!(amount > 0, "COVER c12_burn_notrap returned");
}

#[kani::proof]
fn c12_mint_from_notrap() {
    let env = Env::default();
    let _h = shim::fresh_host();
    let (minter, to) = (addr(), addr());
    let amount: i128 = kani::any();
    let bt0 = bal_pre(&to);
    kani::assume(shim::auth_granted(minter.0) && amount >= 0 && bt0.checked_add(amount).is_some());
    kani::assume(inst().pre_has(&DataKey::Minter(minter.clone())));
    shim::set_no_trap_mode();
    let r = <T as InterchainTokenInterface>::mint_from(&env, minter.clone(), to.clone(), amount);
    soroban_sdk::obl!(r.is_ok(), "OBL C12.current_minter_can_mint: a current minter's authorised mint of a non-negative amount is accepted");
    kani::cover!(amount > 0, "COVER c12_mint_from_notrap returned");
}

#[kani::proof]
fn c12_approve_notrap() {
    let env = Env::default();
    let h = shim::fresh_host();
    let seq = h.sequence;
    let (from, spender) = (addr(), addr());
    let amount: i128 = kani::any();
    let exp: u32 = kani::any();
    kani::assume(shim::auth_granted(from.0) && amount >= 0 && (amount == 0 || exp >= seq));
    shim::set_no_trap_mode();
    <T as token::Interface>::approve(env.clone(), from.clone(), spender.clone(), amount, exp);
    soroban_sdk::obl!(true, "OBL C12.approve_accepts_live_expiration: an authorised approval expiring on or after the current ledger is accepted");
    kani::cover!(amount > 0 && exp == seq, "COVER c12_approve_notrap expiring this ledger");
}
