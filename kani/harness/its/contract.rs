// Contracts and proof harnesses for contracts/interchain-token-service/src/contract.rs.
use super::*;
// named explicitly: the harness must not depend on which of these the file under verification happens to import
use axelar_gas_service::AxelarGasServiceClient;
use axelar_gateway::executable::AxelarExecutableInterface;
use axelar_gateway::AxelarGatewayMessagingClient;
use axelar_soroban_std::events::Event;
use axelar_soroban_std::token::validate_token_metadata;
use axelar_soroban_std::ttl::extend_instance_ttl;
use axelar_soroban_std::ttl::extend_persistent_ttl;
use axelar_soroban_std::address::AddressExt;
use axelar_soroban_std::ensure;
use axelar_soroban_std::interfaces;
use axelar_soroban_std::types::Token;
use axelar_soroban_std::Ownable;
use axelar_soroban_std::Upgradable;
use interchain_token::InterchainTokenClient;
use soroban_sdk::token;
use soroban_sdk::token::StellarAssetClient;
use soroban_sdk::xdr::FromXdr;
use soroban_sdk::xdr::ToXdr;
use soroban_sdk::contract;
use soroban_sdk::contractimpl;
use soroban_sdk::panic_with_error;
use soroban_sdk::Address;
use soroban_sdk::Bytes;
use soroban_sdk::BytesN;
use soroban_sdk::Env;
use soroban_sdk::String;
use soroban_token_sdk::metadata::TokenMetadata;
use crate::abi::get_message_type;
use crate::abi::MessageType as EncodedMessageType;
use crate::error::ContractError;
use crate::event::InterchainTokenDeployedEvent;
use crate::event::InterchainTokenDeploymentStartedEvent;
use crate::event::InterchainTokenIdClaimedEvent;
use crate::event::InterchainTransferReceivedEvent;
use crate::event::InterchainTransferSentEvent;
use crate::event::TrustedChainRemovedEvent;
use crate::event::TrustedChainSetEvent;
use crate::executable::InterchainTokenExecutableClient;
use crate::interface::InterchainTokenServiceInterface;
use crate::storage_types::DataKey;
use crate::storage_types::TokenIdConfigValue;
use crate::token_handler;
use crate::types::DeployInterchainToken;
use crate::types::HubMessage;
use crate::types::InterchainTransfer;
use crate::types::Message;
use crate::types::TokenManagerType;
use crate::abi::verif::{
    any_error, get_message_type_contract, hub_decode_contract, hub_encode_contract, spec_encoding, symbolic_message, words_of_hub, words_of_message, DECODED, ENCODED, TYPE_OF,
};
use crate::types::{DeployInterchainToken as TDeploy, InterchainTransfer as TTransfer};
use soroban_sdk::shim::{self, inst, pers, temp, Wordy, Words, OWNER_KEY};
use soroban_sdk::{Symbol, Val, Vec};

type S = InterchainTokenService;

/// structural equality on the host representation — never the repository's own `PartialEq` impls,
/// which are part of the code under verification
fn same<T: Wordy>(a: &T, b: &T) -> bool {
    Words::of(a) == Words::of(b)
}
fn me(env: &Env) -> Address {
    env.current_contract_address()
}
fn sym_token() -> Token {
    Token { address: Address::symbolic(), amount: kani::any() }
}
fn cfg_key(id: &BytesN<32>) -> DataKey {
    DataKey::TokenIdConfigKey(*id)
}
fn axelar(env: &Env) -> String {
    String::from_str(env, "axelar")
}
fn no_storage_change() -> bool {
    inst().n_changed() == 0 && pers().n_changed() == 0 && temp().n_changed() == 0 && shim::n_wasm_updates() == 0
}

// ---- spec terms of the id derivations (C11), written independently of the repository's helpers
fn spec_chain_name_hash(env: &Env) -> Option<BytesN<32>> {
    let name: Option<String> = inst().pre(&DataKey::ChainName);
    name.map(|n| env.crypto().keccak256(&n.to_xdr(env)).into())
}
fn spec_deploy_salt(env: &Env, deployer: &Address, salt: &BytesN<32>) -> Option<BytesN<32>> {
    spec_chain_name_hash(env).map(|h| env.crypto().keccak256(&("interchain-token-salt", h, deployer.clone(), *salt).to_xdr(env)).into())
}
fn spec_canonical_salt(env: &Env, token: &Address) -> Option<BytesN<32>> {
    spec_chain_name_hash(env).map(|h| env.crypto().keccak256(&("canonical-token-salt", h, token.clone()).to_xdr(env)).into())
}
fn spec_token_id(env: &Env, salt: &BytesN<32>) -> BytesN<32> {
    env.crypto().keccak256(&("its-interchain-token-id", Address::zero(env), *salt).to_xdr(env)).into()
}

// ------------------------------------------------------------------------------------------------
// contract stubs of the service's own helpers
// ------------------------------------------------------------------------------------------------
pub static mut PGC_RESULT_OK: bool = false;
/// contract of `pay_gas_and_call_contract` (proved by c05_pay_gas_and_call_contract): records its
/// arguments; Ok only for a trusted destination.
pub fn pay_gas_and_call_contract_stub(_env: &Env, caller: Address, destination_chain: String, message: Message, gas_token: Token) -> Result<(), ContractError> {
    let mut w = Words::new();
    caller.to_words(&mut w);
    destination_chain.to_words(&mut w);
    gas_token.to_words(&mut w);
    shim::log_internal("pay_gas_and_call_contract", w);
    shim::log_internal("pay_gas_and_call_contract.message", words_of_message(&message));
    let trusted = pers().post_has(&DataKey::TrustedChain(destination_chain));
    if trusted && kani::any() {
        unsafe { PGC_RESULT_OK = true };
        Ok(())
    } else {
        Err(any_error())
    }
}
/// was pay_gas_and_call_contract (stub) invoked, at any position, with exactly these arguments?
fn pgc_called(caller: &Address, chain: &String, message: &Message, gas_token: &Token) -> bool {
    let mut w = Words::new();
    caller.to_words(&mut w);
    chain.to_words(&mut w);
    gas_token.to_words(&mut w);
    let mw = words_of_message(message);
    let mut r = false;
    let mut i = 0;
    while i + 1 < shim::LCAP {
        let c0 = shim::call(i);
        let c1 = shim::call(i + 1);
        r = r
            | ((i + 2 <= shim::n_calls())
                & (c0.callee == 0)
                & (c0.func == soroban_sdk::fnv("pay_gas_and_call_contract"))
                & (c0.args == w)
                & (c1.callee == 0)
                & (c1.func == soroban_sdk::fnv("pay_gas_and_call_contract.message"))
                & (c1.args == mw));
        i += 1;
    }
    r
}

pub static mut DRT_RESULT: Option<Result<BytesN<32>, ContractError>> = None;
pub fn deploy_remote_token_stub(_env: &Env, caller: Address, deploy_salt: BytesN<32>, destination_chain: String, gas_token: Token) -> Result<BytesN<32>, ContractError> {
    shim::log_internal("deploy_remote_token", Words::of(&(caller, deploy_salt, destination_chain, gas_token)));
    let r = if kani::any() { Ok(BytesN::symbolic()) } else { Err(any_error()) };
    unsafe { DRT_RESULT = Some(r) };
    r
}

// ------------------------------------------------------------------------------------------------
// C05  pay_gas_and_call_contract, interchain_transfer
// ------------------------------------------------------------------------------------------------
#[kani::proof]
#[kani::stub(crate::types::HubMessage::abi_encode, hub_encode_contract)]
fn c05_pay_gas_and_call_contract() {
    let env = Env::default();
    let _h = shim::fresh_host();
    let caller = Address::symbolic();
    let chain = String::symbolic();
    let message = symbolic_message();
    let gas_token = sym_token();

    let r = S::pay_gas_and_call_contract(&env, caller.clone(), chain.clone(), message.clone(), gas_token.clone());

    let trusted = pers().pre_has(&DataKey::TrustedChain(chain.clone()));
    let gateway: Option<Address> = inst().pre(&DataKey::Gateway);
    let gas: Option<Address> = inst().pre(&DataKey::GasService);
    let hub: Option<String> = inst().pre(&DataKey::ItsHubAddress);
    match r {
        Ok(()) => {
            soroban_sdk::obl!(trusted, "OBL C05.only_trusted_destination: a message is announced only toward a currently trusted destination chain");
            let expected = HubMessage::SendToHub { destination_chain: chain.clone(), message: message.clone() };
            soroban_sdk::obl!(unsafe { ENCODED } == Some(words_of_hub(&expected)), "OBL C05.payload_is_send_to_hub_of_message: the payload is the encoding of SendToHub{this destination, exactly this message}");
            let payload = spec_encoding(&expected);
            soroban_sdk::obl!(
                matches!((&gateway, &gas, &hub), (Some(gw), Some(gs), Some(hb)) if shim::n_calls() == 2
                    && shim::called(gs, "pay_gas", &(me(&env), axelar(&env), hb.clone(), payload.clone(), caller.clone(), gas_token.clone(), Bytes::new(&env)))
                    && shim::called(gw, "call_contract", &(me(&env), axelar(&env), hb.clone(), payload.clone()))),
                "OBL C05.gas_then_call_same_payload: exactly pay_gas(service, hub chain, hub address, payload, payer = caller, stated gas token) and call_contract(service, hub chain, hub address, the same payload), and no other call"
            );
            soroban_sdk::obl!(no_storage_change() && shim::n_events() == 0 && shim::n_deploys() == 0, "OBL C05.routing_frame");
            kani::cover!(matches!(message, Message::InterchainTransfer(_)), "COVER pgc ok transfer");
            kani::cover!(matches!(message, Message::DeployInterchainToken(_)), "COVER pgc ok deploy");
        }
        Err(_) => {
            soroban_sdk::obl!(shim::no_effects(), "OBL C05.refused_routing_moves_nothing: no gas is charged and nothing is sent for an untrusted destination or an unencodable message");
            kani::cover!(!trusted, "COVER pgc err untrusted");
        }
    }
}

#[kani::proof]
#[kani::stub(InterchainTokenService::pay_gas_and_call_contract, pay_gas_and_call_contract_stub)]
fn c05_interchain_transfer() {
    let env = Env::default();
    let _h = shim::fresh_host();
    let caller = Address::symbolic();
    let token_id: BytesN<32> = BytesN::symbolic();
    let chain = String::symbolic();
    let dest = Bytes::symbolic();
    let amount: i128 = kani::any();
    let data: Option<Bytes> = Option::<Bytes>::symbolic();
    let gas_token = sym_token();

    let r = S::interchain_transfer(&env, caller.clone(), token_id, chain.clone(), dest.clone(), amount, data.clone(), gas_token.clone());

    let cfg: Option<TokenIdConfigValue> = pers().pre(&cfg_key(&token_id));
    if r.is_ok() {
        soroban_sdk::obl!(amount > 0, "OBL C05.transfer_needs_positive_amount");
        soroban_sdk::obl!(shim::authed(&caller), "OBL C07.interchain_transfer_needs_caller: tokens are taken from `caller` only under the caller's authorisation");
        soroban_sdk::obl!(
            matches!(&cfg, Some(c) if match c.token_manager_type {
                TokenManagerType::NativeInterchainToken => shim::called(&c.token_address, "burn", &(caller.clone(), amount)),
                TokenManagerType::LockUnlock => shim::called(&c.token_address, "transfer", &(caller.clone(), me(&env), amount)),
            }),
            "OBL C05.takes_exact_amount_of_registered_token: exactly the stated amount is taken from the sender on the token registered under this id — burned (service-deployed) or moved into custody (canonical)"
        );
        soroban_sdk::obl!(
            shim::n_events() == 1 && shim::event_is(0, &(Symbol::new(&env, "interchain_transfer_sent"), token_id, caller.clone(), chain.clone(), dest.clone(), amount), &(data.clone(),)),
            "OBL C05.sent_event_exact"
        );
        let message = Message::InterchainTransfer(TTransfer { token_id, source_address: caller.clone().to_xdr(&env), destination_address: dest.clone(), amount, data: data.clone() });
        soroban_sdk::obl!(
            shim::n_calls() == 3 && pgc_called(&caller, &chain, &message, &gas_token) && unsafe { PGC_RESULT_OK },
            "OBL C05.announces_exactly_what_was_taken: the hub is told exactly this token id, amount, sender (xdr of the caller), destination and data, with the stated gas payment charged to the caller; one take, one announcement"
        );
        soroban_sdk::obl!(no_storage_change() && shim::n_deploys() == 0, "OBL C05.transfer_frame");
        kani::cover!(matches!(&cfg, Some(c) if c.token_manager_type == TokenManagerType::LockUnlock), "COVER its transfer lock");
        kani::cover!(matches!(&cfg, Some(c) if c.token_manager_type == TokenManagerType::NativeInterchainToken), "COVER its transfer burn");
    } else {
        kani::cover!(amount <= 0, "COVER its transfer err amount");
        kani::cover!(cfg.is_none() && amount > 0, "COVER its transfer err unknown token");
    }
}

// ------------------------------------------------------------------------------------------------
// C04  execute (inbound): execute -> execute_message -> get_execute_params, each against the
// contract of the next
// ------------------------------------------------------------------------------------------------
pub static mut EM_RESULT_OK: bool = false;
/// contract stub of `execute_message` for the `execute` harness: records its arguments
pub fn execute_message_stub(_env: &Env, source_chain: String, message_id: String, source_address: String, payload: Bytes) -> Result<(), ContractError> {
    shim::log_internal("execute_message", Words::of(&(source_chain, message_id, source_address, payload)));
    if kani::any() {
        unsafe { EM_RESULT_OK = true };
        Ok(())
    } else {
        Err(any_error())
    }
}

#[kani::proof]
#[kani::stub(InterchainTokenService::execute_message, execute_message_stub)]
fn c04_execute_entry() {
    let env = Env::default();
    let _h = shim::fresh_host();
    let (sc, mid, sa) = (String::symbolic(), String::symbolic(), String::symbolic());
    let payload = Bytes::symbolic();

    <S as AxelarExecutableInterface>::execute(env.clone(), sc.clone(), mid.clone(), sa.clone(), payload.clone());

    let gateway: Option<Address> = inst().pre(&DataKey::Gateway);
    let ph: BytesN<32> = env.crypto().keccak256(&payload).into();
    soroban_sdk::obl!(
        matches!(&gateway, Some(g) if shim::n_calls() == 2 && shim::called(g, "validate_message", &(me(&env), sc.clone(), mid.clone(), sa.clone(), ph)) && shim::ret_of::<bool>(g, "validate_message")),
        "OBL C04.approval_consumed: the configured gateway consumed an approval of exactly (service, source chain, message id, source address, keccak256(payload)) — once"
    );
    soroban_sdk::obl!(
        shim::internal_called("execute_message", &(sc.clone(), mid.clone(), sa.clone(), payload.clone())) && unsafe { EM_RESULT_OK },
        "OBL C04.and_execute_message: the same delivery is handed to execute_message, whose failure fails the whole call"
    );
    soroban_sdk::obl!(no_storage_change() && shim::n_events() == 0 && shim::n_deploys() == 0, "OBL C04.entry_frame");
    kani::cover!(true, "COVER c04 entry returned");
}

#[kani::proof]
#[kani::stub(crate::abi::get_message_type, get_message_type_contract)]
#[kani::stub(crate::types::HubMessage::abi_decode, hub_decode_contract)]
fn c04_get_execute_params() {
    let env = Env::default();
    let _h = shim::fresh_host();
    let sc = String::symbolic();
    let payload = Bytes::symbolic();

    let r = S::get_execute_params(&env, sc.clone(), &payload);
    shim::no_dangling_abstract_content();

    if let Ok((origin, message)) = r {
        soroban_sdk::obl!(sc == axelar(&env), "OBL C04.from_hub_chain: the message comes from the hub chain");
        soroban_sdk::obl!(matches!(unsafe { TYPE_OF }, Some((id, 4)) if id == payload.id), "OBL C04.receive_from_hub_only: the outer message type is ReceiveFromHub");
        let decoded = unsafe { DECODED.clone() };
        soroban_sdk::obl!(
            decoded == Some(HubMessage::ReceiveFromHub { source_chain: origin.clone(), message: message.clone() }),
            "OBL C04.params_are_the_decoded_message: origin chain and inner message are exactly what the strict decoder returned for this payload"
        );
        soroban_sdk::obl!(pers().pre_has(&DataKey::TrustedChain(origin.clone())), "OBL C04.trusted_origin: the wrapped message names a currently trusted origin chain");
        soroban_sdk::obl!(shim::no_effects(), "OBL C04.params_pure");
        kani::cover!(matches!(message, Message::InterchainTransfer(_)), "COVER c04 params transfer");
        kani::cover!(matches!(message, Message::DeployInterchainToken(_)), "COVER c04 params deploy");
    }
}

pub static mut GEP_KIND: u8 = 0;
pub static mut GEP_OUT: Option<(String, Message)> = None;
/// contract stub of `get_execute_params` (proved by c04_get_execute_params): Ok((origin, message))
/// only for the hub chain, a ReceiveFromHub wrapper and a trusted origin; read-only
pub fn get_execute_params_stub(env: &Env, source_chain: String, payload: &Bytes) -> Result<(String, Message), ContractError> {
    shim::log_internal("get_execute_params", Words::of(&(source_chain.clone(), payload.clone())));
    if !kani::any::<bool>() {
        return Err(any_error());
    }
    kani::assume(source_chain == axelar(env));
    let origin = String::symbolic();
    kani::assume(pers().post_has(&DataKey::TrustedChain(origin.clone())));
    let message = if unsafe { GEP_KIND } == 0 {
        let amount: i128 = kani::any();
        kani::assume(amount >= 0);
        let data = Option::<Bytes>::symbolic();
        kani::assume(!matches!(&data, Some(d) if d.is_empty()));
        Message::InterchainTransfer(TTransfer { token_id: BytesN::symbolic(), source_address: Bytes::symbolic(), destination_address: Bytes::symbolic(), amount, data })
    } else {
        let minter = Option::<Bytes>::symbolic();
        kani::assume(!matches!(&minter, Some(d) if d.is_empty()));
        Message::DeployInterchainToken(TDeploy { token_id: BytesN::symbolic(), name: String::symbolic(), symbol: String::symbolic(), decimals: kani::any(), minter })
    };
    unsafe { GEP_OUT = Some((origin.clone(), message.clone())) };
    Ok((origin, message))
}

#[kani::proof]
#[kani::stub(InterchainTokenService::get_execute_params, get_execute_params_stub)]
fn c04_execute_message_transfer() {
    let env = Env::default();
    let _h = shim::fresh_host();
    unsafe { GEP_KIND = 0 };
    let (sc, mid, sa) = (String::symbolic(), String::symbolic(), String::symbolic());
    let payload = Bytes::symbolic();

    let r = S::execute_message(&env, sc.clone(), mid.clone(), sa.clone(), payload.clone());

    if r.is_ok() {
        let hub: Option<String> = inst().pre(&DataKey::ItsHubAddress);
        soroban_sdk::obl!(shim::internal_called("get_execute_params", &(sc.clone(), payload.clone())), "OBL C04.params_from_this_delivery");
        soroban_sdk::obl!(hub == Some(sa.clone()), "OBL C04.hub_address_checked: the message comes from the configured hub address");
        let (origin, message) = match unsafe { GEP_OUT.clone() } {
            Some(x) => x,
            None => (String { id: 0 }, symbolic_message()),
        };
        soroban_sdk::obl!(unsafe { GEP_OUT.is_some() }, "OBL C04.only_validated_params");
        if let Message::InterchainTransfer(t) = message {
            let cfg: Option<TokenIdConfigValue> = pers().pre(&cfg_key(&t.token_id));
            soroban_sdk::obl!(cfg.is_some(), "OBL C04.transfer_needs_registered_token");
            let c = cfg.unwrap_or(TokenIdConfigValue { token_address: Address(0), token_manager_type: TokenManagerType::LockUnlock });
            let c1 = shim::call(1);
            let recipient = Address(c1.args.w[if matches!(c.token_manager_type, TokenManagerType::LockUnlock) { 1 } else { 0 }]);
            soroban_sdk::obl!(recipient.clone().to_xdr(&env) == t.destination_address, "OBL C04.recipient_is_decoded_destination: the credited address is the one whose XDR is the message's destination field");
            soroban_sdk::obl!(
                match c.token_manager_type {
                    TokenManagerType::NativeInterchainToken => shim::call_is(1, &c.token_address, "mint", &(recipient.clone(), t.amount)),
                    TokenManagerType::LockUnlock => shim::call_is(1, &c.token_address, "transfer", &(me(&env), recipient.clone(), t.amount)),
                },
                "OBL C05.inbound_credits_exact_amount: exactly the announced amount is minted (service-deployed token) or released from custody (canonical token) to the recipient, on the registered token"
            );
            soroban_sdk::obl!(
                shim::n_events() == 1
                    && shim::event_is(0, &(Symbol::new(&env, "interchain_transfer_received"), origin.clone(), t.token_id, t.source_address.clone(), recipient.clone(), t.amount), &(t.data.clone(),)),
                "OBL C04.received_event_exact"
            );
            soroban_sdk::obl!(
                match &t.data {
                    None => shim::n_calls() == 2,
                    Some(d) => shim::n_calls() == 3 && shim::call_is(2, &recipient, "execute_with_interchain_token", &(origin.clone(), mid.clone(), t.source_address.clone(), d.clone(), t.token_id, c.token_address.clone(), t.amount)),
                },
                "OBL C04.one_effect_only: one credit; the recipient's callback only when data is present, with the same values; nothing else"
            );
            soroban_sdk::obl!(no_storage_change() && shim::n_deploys() == 0, "OBL C04.transfer_arm_frame: no registration changes");
            kani::cover!(t.data.is_some(), "COVER c04 transfer with data");
            kani::cover!(t.data.is_none() && c.token_manager_type == TokenManagerType::LockUnlock, "COVER c04 transfer unlock");
            kani::cover!(c.token_manager_type == TokenManagerType::NativeInterchainToken, "COVER c04 transfer mint");
        }
    }
}

#[kani::proof]
#[kani::stub(InterchainTokenService::get_execute_params, get_execute_params_stub)]
fn c04_execute_message_deploy() {
    let env = Env::default();
    let _h = shim::fresh_host();
    unsafe { GEP_KIND = 1 };
    let (sc, mid, sa) = (String::symbolic(), String::symbolic(), String::symbolic());
    let payload = Bytes::symbolic();

    let r = S::execute_message(&env, sc.clone(), mid.clone(), sa.clone(), payload.clone());

    if r.is_ok() {
        let hub: Option<String> = inst().pre(&DataKey::ItsHubAddress);
        soroban_sdk::obl!(shim::internal_called("get_execute_params", &(sc.clone(), payload.clone())), "OBL C04.params_from_this_delivery");
        soroban_sdk::obl!(hub == Some(sa.clone()), "OBL C04.hub_address_checked: the message comes from the configured hub address");
        soroban_sdk::obl!(unsafe { GEP_OUT.is_some() }, "OBL C04.only_validated_params");
        let (_origin, message) = match unsafe { GEP_OUT.clone() } {
            Some(x) => x,
            None => (String { id: 0 }, symbolic_message()),
        };
        if let Message::DeployInterchainToken(d) = message {
            soroban_sdk::obl!(!pers().pre_has(&cfg_key(&d.token_id)), "OBL C11.remote_deploy_needs_free_id: a remote deploy message for a taken id fails");
            soroban_sdk::obl!(!d.name.is_empty() && !d.symbol.is_empty(), "OBL C04.deploy_needs_valid_metadata");
            let wasm: Option<BytesN<32>> = inst().pre(&DataKey::InterchainTokenWasmHash);
            let dep = shim::deploy(0);
            let minter_word_present = dep.args.w[1] != 0;
            let minter_addr = Address(dep.args.w[2]);
            soroban_sdk::obl!(
                match &d.minter {
                    None => !minter_word_present,
                    Some(mb) => minter_word_present && minter_addr.clone().to_xdr(&env) == *mb,
                },
                "OBL C11.remote_deploy_minter_is_decoded: the designated minter is the address whose XDR is the message's minter field (none if absent)"
            );
            let minter = if minter_word_present { Some(minter_addr) } else { None };
            let md = TokenMetadata { name: d.name.clone(), symbol: d.symbol.clone(), decimal: d.decimals as u32 };
            soroban_sdk::obl!(
                shim::n_deploys() == 1
                    && dep.deployer == me(&env).0
                    && BytesN::<32>([dep.salt[0], dep.salt[1], dep.salt[2], dep.salt[3], 0, 0, 0, 0]) == d.token_id
                    && matches!(wasm, Some(w) if w.0[0] == dep.wasm[0] && w.0[1] == dep.wasm[1] && w.0[2] == dep.wasm[2] && w.0[3] == dep.wasm[3])
                    && dep.args == Words::of(&(me(&env), minter.clone(), d.token_id, md.clone())),
                "OBL C11.remote_deploy_exact: one token deployed by the service at the address derived from (service, token id), from the configured code, constructed with (owner = service, designated minter, this id, the requested metadata)"
            );
            soroban_sdk::obl!(
                same(&pers().post::<_, TokenIdConfigValue>(&cfg_key(&d.token_id)), &Some(TokenIdConfigValue { token_address: Address(dep.address), token_manager_type: TokenManagerType::NativeInterchainToken }))
                    && pers().changed_only(&[Words::of(&cfg_key(&d.token_id))])
                    && inst().n_changed() == 0,
                "OBL C11.remote_deploy_registers_once: the id is registered to the deployed address as a service-deployed token; nothing else is written"
            );
            soroban_sdk::obl!(shim::n_calls() == 1, "OBL C04.deploy_arm_moves_no_funds");
            soroban_sdk::obl!(shim::n_calls() == 1, "OBL C11.remote_deploy_keeps_service_minter: the service makes no role call on the new token — it stays a minter (as owner) next to the designated minter");
            soroban_sdk::obl!(
                shim::n_events() == 1 && shim::event_is(0, &(Symbol::new(&env, "interchain_token_deployed"), d.token_id, Address(dep.address), d.name.clone(), d.symbol.clone(), d.decimals as u32, minter.clone()), &Vec::<Val>::new(&env)),
                "OBL C04.deployed_event_exact"
            );
            kani::cover!(d.minter.is_some(), "COVER c04 deploy with minter");
            kani::cover!(d.minter.is_none(), "COVER c04 deploy without minter");
        }
    }
}

// ------------------------------------------------------------------------------------------------
// C11  id derivations, local deployment, canonical registration
// ------------------------------------------------------------------------------------------------
#[kani::proof]
fn c11_id_derivations() {
    let env = Env::default();
    let _h = shim::fresh_host();
    let (deployer, token) = (Address::symbolic(), Address::symbolic());
    let salt: BytesN<32> = BytesN::symbolic();

    let s1 = S::interchain_token_deploy_salt(&env, deployer.clone(), salt);
    let id = S::interchain_token_id(&env, deployer.clone(), salt);
    let s2 = S::canonical_token_deploy_salt(&env, token.clone());

    soroban_sdk::obl!(Some(s1) == spec_deploy_salt(&env, &deployer, &salt), "OBL C11.deploy_salt_binds_chain_deployer_salt: keccak(xdr((\"interchain-token-salt\", keccak(xdr(chain name)), deployer, salt)))");
    soroban_sdk::obl!(Some(s2) == spec_canonical_salt(&env, &token), "OBL C11.canonical_salt_binds_chain_and_token: keccak(xdr((\"canonical-token-salt\", keccak(xdr(chain name)), token address)))");
    let expect_id: BytesN<32> = env.crypto().keccak256(&("its-interchain-token-id", deployer.clone(), salt).to_xdr(&env)).into();
    soroban_sdk::obl!(id == expect_id, "OBL C11.token_id_binds_sender_salt: keccak(xdr((\"its-interchain-token-id\", sender, salt)))");
    soroban_sdk::obl!(s1 != s2 && s1 != id && s2 != id, "OBL C11.domain_separated: the three derivations never collide (distinct prefixes)");
    soroban_sdk::obl!(shim::no_effects() && shim::n_auth() == 0, "OBL C11.derivations_pure");
    kani::cover!(true, "COVER c11 ids");
}

#[kani::proof]
fn c11_deploy_interchain_token() {
    let env = Env::default();
    let _h = shim::fresh_host();
    let caller = Address::symbolic();
    let salt: BytesN<32> = BytesN::symbolic();
    let md = TokenMetadata { decimal: kani::any(), name: String::symbolic(), symbol: String::symbolic() };
    let supply: i128 = kani::any();
    let minter: Option<Address> = Option::<Address>::symbolic();

    let r = S::deploy_interchain_token(&env, caller.clone(), salt, md.clone(), supply, minter.clone());

    if let Ok(id) = r {
        soroban_sdk::obl!(shim::authed(&caller), "OBL C07.deploy_needs_caller: a token is deployed under `caller`'s (deployer, salt) name only with the caller's authorisation");
        let ds = spec_deploy_salt(&env, &caller, &salt);
        soroban_sdk::obl!(matches!(ds, Some(s) if id == spec_token_id(&env, &s)), "OBL C11.local_deploy_id_deterministic: the id is the domain-separated function of (chain name, caller, salt)");
        let wasm: Option<BytesN<32>> = inst().pre(&DataKey::InterchainTokenWasmHash);
        let dep = shim::deploy(0);
        let initial_minter = if supply > 0 { Some(me(&env)) } else { minter.clone() };
        soroban_sdk::obl!(
            shim::n_deploys() == 1
                && dep.deployer == me(&env).0
                && BytesN::<32>([dep.salt[0], dep.salt[1], dep.salt[2], dep.salt[3], 0, 0, 0, 0]) == id
                && matches!(wasm, Some(w) if w.0[0] == dep.wasm[0] && w.0[1] == dep.wasm[1] && w.0[2] == dep.wasm[2] && w.0[3] == dep.wasm[3])
                && dep.args == Words::of(&(me(&env), initial_minter.clone(), id, md.clone())),
            "OBL C11.local_deploy_exact: one token deployed by the service at the address derived from (service, id), owned by the service, reporting this id and the requested metadata"
        );
        let token = Address(dep.address);
        soroban_sdk::obl!(!(supply <= 0 && minter == Some(me(&env))), "OBL C11.service_not_designated_minter");
        soroban_sdk::obl!(
            if supply > 0 { shim::n_calls() >= 1 && shim::call_is(0, &token, "mint", &(caller.clone(), supply)) } else { shim::n_calls() == 0 },
            "OBL C11.initial_supply_to_deployer: the initial supply, if any, is credited to the deployer — and nothing is minted otherwise"
        );
        kani::cover!(supply > 0 && minter.is_some(), "COVER c11 deploy supply and minter");
        kani::cover!(supply > 0 && minter.is_none(), "COVER c11 deploy supply only");
        kani::cover!(supply <= 0 && minter.is_some(), "COVER c11 deploy minter only");
        kani::cover!(supply <= 0 && minter.is_none(), "COVER c11 deploy neither");
        // --- the service must stay able to mint for inbound transfers: it is a minter from construction (it
        // is the token's owner); what matters is the net effect of the role calls it makes on the new token
        let mut its_minter = true;
        let mut i = 0;
        while i < shim::LCAP {
            if i < shim::n_calls() {
                if shim::call_is(i, &token, "remove_minter", &(me(&env),)) {
                    its_minter = false;
                }
                if shim::call_is(i, &token, "add_minter", &(me(&env),)) {
                    its_minter = true;
                }
            }
            i += 1;
        }
        if minter == Some(me(&env)) {
            soroban_sdk::obl!(its_minter, "OBL C11.its_remains_minter_when_designated: when the service itself is the designated minter it still holds the minting right at the end");
        } else {
            soroban_sdk::obl!(its_minter, "OBL C11.its_remains_minter: the service never ends up without its minting right on a token it deployed");
        }
        soroban_sdk::obl!(
            match (&minter, supply > 0) {
                (Some(m), true) => shim::call_is(shim::n_calls() - 1, &token, "add_minter", &(m.clone(),)),
                _ => true,
            },
            "OBL C11.designated_minter_gets_role"
        );
        soroban_sdk::obl!(
            same(&pers().post::<_, TokenIdConfigValue>(&cfg_key(&id)), &Some(TokenIdConfigValue { token_address: token.clone(), token_manager_type: TokenManagerType::NativeInterchainToken }))
                && pers().changed_only(&[Words::of(&cfg_key(&id))])
                && inst().n_changed() == 0,
            "OBL C11.local_deploy_registers_once"
        );
        soroban_sdk::obl!(
            shim::n_events() == 1 && shim::event_is(0, &(Symbol::new(&env, "interchain_token_deployed"), id, token.clone(), md.name.clone(), md.symbol.clone(), md.decimal, initial_minter.clone()), &Vec::<Val>::new(&env)),
            "OBL C11.local_deploy_event"
        );
    }
}

#[kani::proof]
fn c11_register_canonical_token() {
    let env = Env::default();
    let _h = shim::fresh_host();
    let token = Address::symbolic();

    let r = S::register_canonical_token(&env, token.clone());

    let cs = spec_canonical_salt(&env, &token);
    match r {
        Ok(id) => {
            soroban_sdk::obl!(matches!(cs, Some(s) if id == spec_token_id(&env, &s)), "OBL C11.canonical_id_deterministic: the id is the domain-separated function of (chain name, token address)");
            soroban_sdk::obl!(!pers().pre_has(&cfg_key(&id)), "OBL C11.register_needs_free_id: re-registering a taken id fails");
            soroban_sdk::obl!(
                same(&pers().post::<_, TokenIdConfigValue>(&cfg_key(&id)), &Some(TokenIdConfigValue { token_address: token.clone(), token_manager_type: TokenManagerType::LockUnlock }))
                    && pers().changed_only(&[Words::of(&cfg_key(&id))])
                    && inst().n_changed() == 0,
                "OBL C11.register_writes_once: the id maps to exactly this token as a lock/unlock token; nothing else is written"
            );
            soroban_sdk::obl!(shim::n_calls() == 0 && shim::n_deploys() == 0, "OBL C11.register_moves_nothing");
            soroban_sdk::obl!(
                matches!(cs, Some(s) if shim::n_events() == 1 && shim::event_is(0, &(Symbol::new(&env, "interchain_token_id_claimed"), id, Address::zero(&env), s), &Vec::<Val>::new(&env))),
                "OBL C11.register_event"
            );
            kani::cover!(true, "COVER c11 register ok");
        }
        Err(e) => {
            soroban_sdk::obl!(e == ContractError::TokenAlreadyRegistered && matches!(cs, Some(s) if pers().pre_has(&cfg_key(&spec_token_id(&env, &s)))), "OBL C11.register_err_only_if_taken");
            soroban_sdk::obl!(shim::no_effects(), "OBL C11.refused_register_no_effect");
            kani::cover!(true, "COVER c11 register err");
        }
    }
}

// ---- registry invariant I-ITS (at one arbitrary witness id; proving it preserved for an arbitrary
// witness proves it for all ids):  a registry entry is either a service-deployed token living at the
// address derived from (service, id) — which is then occupied — or a canonical token registered
// under the id derived from its own address.  It is what makes "re-deploying a taken id fails" true
// although deploy_interchain_token never reads the registry: the deployment itself collides.
fn derived_address(env: &Env, id: &BytesN<32>) -> Address {
    env.deployer().with_address(me(env), *id).deployed_address()
}
fn iits(pre: bool, env: &Env, id: &BytesN<32>) -> bool {
    let cfg: Option<TokenIdConfigValue> = if pre { pers().pre(&cfg_key(id)) } else { pers().post(&cfg_key(id)) };
    match cfg {
        None => true,
        Some(c) => match c.token_manager_type {
            TokenManagerType::NativeInterchainToken => c.token_address == derived_address(env, id) && shim::address_occupied(c.token_address.0),
            TokenManagerType::LockUnlock => matches!(spec_canonical_salt(env, &c.token_address), Some(s) if spec_token_id(env, &s) == *id),
        },
    }
}

#[kani::proof]
fn c11_deploy_needs_free_id() {
    let env = Env::default();
    let _h = shim::fresh_host();
    let caller = Address::symbolic();
    let salt: BytesN<32> = BytesN::symbolic();
    let md = TokenMetadata { decimal: kani::any(), name: String::symbolic(), symbol: String::symbolic() };
    let witness: BytesN<32> = BytesN::symbolic();
    // requires: I-ITS at the id this call is about to use and at the witness
    let id_new = spec_deploy_salt(&env, &caller, &salt).map(|s| spec_token_id(&env, &s));
    if let Some(idn) = &id_new {
        kani::assume(iits(true, &env, idn));
    }
    kani::assume(iits(true, &env, &witness));

    // no initial supply / minter: those paths only add token calls (covered by c11_deploy_interchain_token)
    let r = S::deploy_interchain_token(&env, caller.clone(), salt, md.clone(), 0, None);

    if let Ok(id) = r {
        soroban_sdk::obl!(Some(id) == id_new, "OBL C11.local_deploy_id_deterministic");
        soroban_sdk::obl!(!pers().pre_has(&cfg_key(&id)), "OBL C11.local_deploy_needs_free_id: deploying under an id that is already registered (as a service-deployed or as a canonical token) fails");
        soroban_sdk::obl!(iits(false, &env, &witness), "OBL C11.registry_invariant_preserved: every registry entry stays either a token at its derived, occupied address or a canonical token under its canonical id");
        kani::cover!(witness == id, "COVER c11 free id witness is new id");
        kani::cover!(witness != id, "COVER c11 free id other witness");
    }
}

#[kani::proof]
fn c11_register_preserves_registry_invariant() {
    let env = Env::default();
    let _h = shim::fresh_host();
    let token = Address::symbolic();
    let witness: BytesN<32> = BytesN::symbolic();
    kani::assume(iits(true, &env, &witness));
    let r = S::register_canonical_token(&env, token.clone());
    if let Ok(id) = r {
        soroban_sdk::obl!(iits(false, &env, &witness), "OBL C11.registry_invariant_preserved: every registry entry stays either a token at its derived, occupied address or a canonical token under its canonical id");
        kani::cover!(witness == id, "COVER c11 register witness is new id");
        kani::cover!(witness != id, "COVER c11 register other witness");
    }
}

#[kani::proof]
#[kani::stub(InterchainTokenService::get_execute_params, get_execute_params_stub)]
fn c11_remote_deploy_preserves_registry_invariant() {
    let env = Env::default();
    let _h = shim::fresh_host();
    unsafe { GEP_KIND = 1 };
    let witness: BytesN<32> = BytesN::symbolic();
    kani::assume(iits(true, &env, &witness));
    let r = S::execute_message(&env, String::symbolic(), String::symbolic(), String::symbolic(), Bytes::symbolic());
    if r.is_ok() {
        soroban_sdk::obl!(iits(false, &env, &witness), "OBL C11.registry_invariant_preserved: every registry entry stays either a token at its derived, occupied address or a canonical token under its canonical id");
        kani::cover!(true, "COVER c11 remote deploy inv ok");
    }
}

#[kani::proof]
fn c11_registry_views() {
    let env = Env::default();
    let _h = shim::fresh_host();
    let id: BytesN<32> = BytesN::symbolic();
    let a = S::token_address(&env, id);
    let t = S::token_manager_type(&env, id);
    let cfg: Option<TokenIdConfigValue> = pers().pre(&cfg_key(&id));
    soroban_sdk::obl!(same(&cfg, &Some(TokenIdConfigValue { token_address: a, token_manager_type: t })), "OBL C11.views_agree_with_registry");
    soroban_sdk::obl!(shim::no_effects() && shim::n_auth() == 0, "OBL C11.registry_views_pure");
    kani::cover!(true, "COVER c11 views");
}

// ------------------------------------------------------------------------------------------------
// C18  remote deployments
// ------------------------------------------------------------------------------------------------
#[kani::proof]
#[kani::stub(InterchainTokenService::deploy_remote_token, deploy_remote_token_stub)]
fn c18_deploy_remote_interchain_token() {
    let env = Env::default();
    let _h = shim::fresh_host();
    let caller = Address::symbolic();
    let salt: BytesN<32> = BytesN::symbolic();
    let chain = String::symbolic();
    let gas_token = sym_token();

    let r = S::deploy_remote_interchain_token(&env, caller.clone(), salt, chain.clone(), gas_token.clone());

    soroban_sdk::obl!(r.is_err() || shim::authed(&caller), "OBL C07.remote_deploy_needs_caller: a remote deployment under `caller`'s (deployer, salt) name needs the caller's authorisation");
    let ds = spec_deploy_salt(&env, &caller, &salt);
    soroban_sdk::obl!(
        matches!(ds, Some(s) if shim::n_calls() == 1 && shim::internal_called("deploy_remote_token", &(caller.clone(), s, chain.clone(), gas_token.clone()))),
        "OBL C18.salt_bound_to_caller: the token is looked up under the id derived from the caller's own (deployer, salt) pair; the caller is the gas payer"
    );
    soroban_sdk::obl!(Some(r) == unsafe { DRT_RESULT }, "OBL C18.result_passed_through");
    soroban_sdk::obl!(no_storage_change() && shim::n_events() == 0 && shim::n_deploys() == 0, "OBL C18.interchain_entry_delegates_only: the entry point registers nothing, emits nothing and moves nothing itself");
    kani::cover!(r.is_ok(), "COVER c18 remote interchain ok");
}

#[kani::proof]
#[kani::stub(InterchainTokenService::deploy_remote_token, deploy_remote_token_stub)]
fn c18_deploy_remote_canonical_token() {
    let env = Env::default();
    let _h = shim::fresh_host();
    let (token, spender) = (Address::symbolic(), Address::symbolic());
    let chain = String::symbolic();
    let gas_token = sym_token();

    let r = S::deploy_remote_canonical_token(&env, token.clone(), chain.clone(), spender.clone(), gas_token.clone());

    let cs = spec_canonical_salt(&env, &token);
    soroban_sdk::obl!(
        matches!(cs, Some(s) if shim::n_calls() == 1 && shim::internal_called("deploy_remote_token", &(spender.clone(), s, chain.clone(), gas_token.clone()))),
        "OBL C18.canonical_salt_from_token_address: the token is looked up under the id derived from the canonical token's address; `spender` is the gas payer"
    );
    soroban_sdk::obl!(Some(r) == unsafe { DRT_RESULT }, "OBL C18.canonical_result_passed_through");
    soroban_sdk::obl!(no_storage_change() && shim::n_events() == 0 && shim::n_deploys() == 0, "OBL C18.canonical_entry_delegates_only: the entry point registers nothing (an unregistered token stays unregistered), emits nothing and moves nothing itself");
    kani::cover!(r.is_ok(), "COVER c18 remote canonical ok");
}

#[kani::proof]
#[kani::stub(InterchainTokenService::pay_gas_and_call_contract, pay_gas_and_call_contract_stub)]
fn c18_deploy_remote_token() {
    let env = Env::default();
    let _h = shim::fresh_host();
    let caller = Address::symbolic();
    let deploy_salt: BytesN<32> = BytesN::symbolic();
    let chain = String::symbolic();
    let gas_token = sym_token();

    let r = S::deploy_remote_token(&env, caller.clone(), deploy_salt, chain.clone(), gas_token.clone());

    if let Ok(id) = r {
        soroban_sdk::obl!(id == spec_token_id(&env, &deploy_salt), "OBL C18.id_from_salt");
        let cfg: Option<TokenIdConfigValue> = pers().pre(&cfg_key(&id));
        soroban_sdk::obl!(cfg.is_some(), "OBL C18.only_registered_tokens: a remote deployment is requested only for a token already registered under that id");
        let c = cfg.unwrap_or(TokenIdConfigValue { token_address: Address(0), token_manager_type: TokenManagerType::LockUnlock });
        soroban_sdk::obl!(
            shim::called(&c.token_address, "name", &()) && shim::called(&c.token_address, "decimals", &()) && shim::called(&c.token_address, "symbol", &()),
            "OBL C18.metadata_is_the_tokens_own: name, decimals and symbol are asked of the registered token itself"
        );
        let (name, decimals, symbol): (String, u32, String) = (shim::ret_of(&c.token_address, "name"), shim::ret_of(&c.token_address, "decimals"), shim::ret_of(&c.token_address, "symbol"));
        soroban_sdk::obl!(decimals <= 255 && !name.is_empty() && !symbol.is_empty(), "OBL C18.refuses_unrepresentable_metadata: empty name or symbol, or more than 255 decimals");
        let message = Message::DeployInterchainToken(TDeploy { token_id: id, name: name.clone(), symbol: symbol.clone(), decimals: decimals as u8, minter: None });
        soroban_sdk::obl!(
            shim::n_calls() == 5 && pgc_called(&caller, &chain, &message, &gas_token) && unsafe { PGC_RESULT_OK },
            "OBL C18.announces_true_id_and_metadata: a deploy message with exactly this id, the token's actual name, symbol and decimals, and no minter, toward the requested chain, with the stated gas payment from the payer"
        );
        soroban_sdk::obl!(
            shim::n_events() == 1 && shim::event_is(0, &(Symbol::new(&env, "token_deployment_started"), id, c.token_address.clone(), chain.clone(), name, symbol, decimals, None::<Address>), &Vec::<Val>::new(&env)),
            "OBL C18.deployment_started_event"
        );
        soroban_sdk::obl!(no_storage_change() && shim::n_deploys() == 0, "OBL C18.moves_no_funds_and_writes_nothing: no token transfer, burn or mint by the service; only the gas payment (inside pay_gas_and_call_contract)");
        kani::cover!(true, "COVER c18 remote token ok");
    }
}

#[kani::proof]
fn c18_validate_token_metadata() {
    let md = TokenMetadata { decimal: kani::any(), name: String::symbolic(), symbol: String::symbolic() };
    let r = validate_token_metadata(&md);
    soroban_sdk::obl!(r.is_ok() == (md.decimal <= 255 && !md.name.is_empty() && !md.symbol.is_empty()), "OBL C18.metadata_validation_exact: accepted exactly when decimals <= 255 and name and symbol are non-empty");
    kani::cover!(r.is_ok(), "COVER md ok");
    kani::cover!(r.is_err(), "COVER md err");
}

// ------------------------------------------------------------------------------------------------
// C06  trusted chains, roles, constructor
// ------------------------------------------------------------------------------------------------
#[kani::proof]
fn c06_its_set_trusted_chain() {
    let env = Env::default();
    let _h = shim::fresh_host();
    let chain = String::symbolic();
    let r = S::set_trusted_chain(&env, chain.clone());
    let owner: Option<Address> = inst().pre(&OWNER_KEY);
    let k = DataKey::TrustedChain(chain.clone());
    let was = pers().pre_has(&k);
    match r {
        Ok(()) => {
            soroban_sdk::obl!(matches!(&owner, Some(o) if shim::authed(o)), "OBL C06.set_trusted_chain_needs_owner");
            soroban_sdk::obl!(!was && pers().post_has(&k), "OBL C06.set_trusted_absent_to_present");
            soroban_sdk::obl!(pers().changed_only(&[Words::of(&k)]) && inst().n_changed() == 0 && shim::n_calls() == 0, "OBL C06.set_trusted_frame");
            soroban_sdk::obl!(shim::n_events() == 1 && shim::event_is(0, &(Symbol::new(&env, "trusted_chain_set"), chain.clone()), &Vec::<Val>::new(&env)), "OBL C06.set_trusted_event");
            kani::cover!(true, "COVER set trusted ok");
        }
        Err(e) => {
            soroban_sdk::obl!(was && e == ContractError::TrustedChainAlreadySet && shim::no_effects(), "OBL C06.set_trusted_err_no_effect");
            kani::cover!(true, "COVER set trusted err");
        }
    }
}

#[kani::proof]
fn c06_its_remove_trusted_chain() {
    let env = Env::default();
    let _h = shim::fresh_host();
    let chain = String::symbolic();
    let r = S::remove_trusted_chain(&env, chain.clone());
    let owner: Option<Address> = inst().pre(&OWNER_KEY);
    let k = DataKey::TrustedChain(chain.clone());
    let was = pers().pre_has(&k);
    match r {
        Ok(()) => {
            soroban_sdk::obl!(matches!(&owner, Some(o) if shim::authed(o)), "OBL C06.remove_trusted_chain_needs_owner");
            soroban_sdk::obl!(was && !pers().post_has(&k), "OBL C06.remove_trusted_present_to_absent");
            soroban_sdk::obl!(pers().changed_only(&[Words::of(&k)]) && inst().n_changed() == 0 && shim::n_calls() == 0, "OBL C06.remove_trusted_frame");
            soroban_sdk::obl!(shim::n_events() == 1 && shim::event_is(0, &(Symbol::new(&env, "trusted_chain_removed"), chain.clone()), &Vec::<Val>::new(&env)), "OBL C06.remove_trusted_event");
            kani::cover!(true, "COVER remove trusted ok");
        }
        Err(e) => {
            soroban_sdk::obl!(!was && e == ContractError::TrustedChainNotSet && shim::no_effects(), "OBL C06.remove_trusted_err_no_effect");
            kani::cover!(true, "COVER remove trusted err");
        }
    }
}

#[kani::proof]
fn c04_is_trusted_chain_view() {
    let env = Env::default();
    let _h = shim::fresh_host();
    let chain = String::symbolic();
    let r = S::is_trusted_chain(&env, chain.clone());
    soroban_sdk::obl!(r == pers().pre_has(&DataKey::TrustedChain(chain.clone())), "OBL C04.trusted_chain_view_agrees: a chain is reported trusted exactly while its entry is set");
    soroban_sdk::obl!(shim::no_effects() && shim::n_auth() == 0, "OBL C04.trusted_chain_view_pure");
    kani::cover!(r, "COVER trusted view true");
    kani::cover!(!r, "COVER trusted view false");
}

#[kani::proof]
fn c06_its_constructor_and_views() {
    let env = Env::default();
    let _h = shim::fresh_host();
    let (owner, gateway, gas) = (Address::symbolic(), Address::symbolic(), Address::symbolic());
    let (hub, name) = (String::symbolic(), String::symbolic());
    let wasm: BytesN<32> = BytesN::symbolic();
    S::__constructor(env.clone(), owner.clone(), gateway.clone(), gas.clone(), hub.clone(), name.clone(), wasm);
    soroban_sdk::obl!(inst().post::<_, Address>(&OWNER_KEY) == Some(owner), "OBL C06.its_ctor_owner");
    soroban_sdk::obl!(
        <S as AxelarExecutableInterface>::gateway(&env) == gateway && S::gas_service(&env) == gas && S::its_hub_address(&env) == hub && S::chain_name(&env) == name && S::interchain_token_wasm_hash(&env) == wasm,
        "OBL C06.its_ctor_settings_and_views"
    );
    soroban_sdk::obl!(S::its_hub_chain_name(&env) == axelar(&env), "OBL C04.hub_chain_name_constant");
    soroban_sdk::obl!(pers().n_changed() == 0 && shim::n_calls() == 0 && shim::n_events() == 0, "OBL C06.its_ctor_frame");
    kani::cover!(true, "COVER its ctor");
}

soroban_sdk::harness_ownable!(InterchainTokenService, c06_its_transfer_ownership);
soroban_sdk::harness_upgradable!(InterchainTokenService, ContractError, c15_its_upgrade, c15_its_migrate);
