// Contracts and proof harnesses for contracts/interchain-token-service/src/token_handler.rs.
use super::*;
// named explicitly: the harness must not depend on which of these the file under verification happens to import
use soroban_sdk::token::StellarAssetClient;
use soroban_sdk::token::TokenClient;
use soroban_sdk::Address;
use soroban_sdk::Env;
use crate::error::ContractError;
use crate::storage_types::TokenIdConfigValue;
use crate::types::TokenManagerType;
use soroban_sdk::shim::{self, inst, pers, temp, Wordy, Words};

pub fn symbolic_config() -> TokenIdConfigValue {
    <TokenIdConfigValue as Wordy>::symbolic()
}
fn frame_ok() -> bool {
    inst().n_changed() == 0 && pers().n_changed() == 0 && temp().n_changed() == 0 && shim::n_events() == 0 && shim::n_deploys() == 0
}

/// contract stub of take_token for callers: records the call, performs the one token call
pub fn take_token_contract(env: &Env, sender: &Address, cfg: TokenIdConfigValue, amount: i128) -> Result<(), ContractError> {
    shim::log_internal("take_token", Words::of(&(sender.clone(), cfg, amount)));
    let _ = env;
    Ok(())
}
pub fn give_token_contract(env: &Env, recipient: &Address, cfg: TokenIdConfigValue, amount: i128) -> Result<(), ContractError> {
    shim::log_internal("give_token", Words::of(&(recipient.clone(), cfg, amount)));
    let _ = env;
    Ok(())
}

#[kani::proof]
fn c05_take_token() {
    let env = Env::default();
    let _h = shim::fresh_host();
    let me = env.current_contract_address();
    let sender = Address::symbolic();
    let cfg = symbolic_config();
    let amount: i128 = kani::any();

    let r = take_token(&env, &sender, cfg.clone(), amount);

    soroban_sdk::obl!(r.is_ok(), "OBL C05.take_total: take_token fails only by trapping (token call failure)");
    soroban_sdk::obl!(
        shim::n_calls() == 1
            && match cfg.token_manager_type {
                TokenManagerType::NativeInterchainToken => shim::call_is(0, &cfg.token_address, "burn", &(sender.clone(), amount)),
                TokenManagerType::LockUnlock => shim::call_is(0, &cfg.token_address, "transfer", &(sender.clone(), me.clone(), amount)),
            },
        "OBL C05.take_exact: exactly the stated amount is taken from the sender, once — burned for a service-deployed token, moved into the service's custody for a canonical one — on the registered token address"
    );
    soroban_sdk::obl!(frame_ok(), "OBL C05.take_frame");
    kani::cover!(cfg.token_manager_type == TokenManagerType::LockUnlock, "COVER take lock");
    kani::cover!(cfg.token_manager_type == TokenManagerType::NativeInterchainToken, "COVER take burn");
}

#[kani::proof]
fn c05_give_token() {
    let env = Env::default();
    let _h = shim::fresh_host();
    let me = env.current_contract_address();
    let recipient = Address::symbolic();
    let cfg = symbolic_config();
    let amount: i128 = kani::any();

    let r = give_token(&env, &recipient, cfg.clone(), amount);

    soroban_sdk::obl!(r.is_ok(), "OBL C05.give_total");
    soroban_sdk::obl!(
        shim::n_calls() == 1
            && match cfg.token_manager_type {
                TokenManagerType::NativeInterchainToken => shim::call_is(0, &cfg.token_address, "mint", &(recipient.clone(), amount)),
                TokenManagerType::LockUnlock => shim::call_is(0, &cfg.token_address, "transfer", &(me.clone(), recipient.clone(), amount)),
            },
        "OBL C05.give_exact: exactly the announced amount is credited to the recipient, once — minted for a service-deployed token, released from the service's custody for a canonical one"
    );
    soroban_sdk::obl!(frame_ok(), "OBL C05.give_frame");
    kani::cover!(cfg.token_manager_type == TokenManagerType::LockUnlock, "COVER give unlock");
    kani::cover!(cfg.token_manager_type == TokenManagerType::NativeInterchainToken, "COVER give mint");
}
