// Contracts for contracts/interchain-token-service/src/abi.rs.
//
// Two things live here:
//  1. the *contract stubs* of the codec used by the service-level harnesses (C04, C05, C18): the
//     codec is an injective function of the message (decode∘encode = id, canonical encodings
//     only) — that is what C10 states about it; what C10 can decide of it directly is in part 2.
//  2. the C10 harnesses on the codec's own helper functions (full domain) and bounded shapes.
use super::*;
// named explicitly: the harness must not depend on which of these the file under verification happens to import
use alloy_primitives::FixedBytes;
use alloy_primitives::Uint;
use alloy_primitives::U256;
use alloy_sol_types::sol;
use alloy_sol_types::SolValue;
use axelar_soroban_std::ensure;
use soroban_sdk::Bytes;
use soroban_sdk::BytesN;
use soroban_sdk::Env;
use soroban_sdk::String;
use crate::abi::alloc::string::String as StdString;
use crate::abi::alloc::vec;
use crate::error::ContractError;
use crate::types;
use crate::types::HubMessage;
use crate::types::Message;
use crate::types::{DeployInterchainToken as TDeploy, InterchainTransfer as TTransfer};
use soroban_sdk::shim::{self, Wordy, Words};

// ------------------------------------------------------------------------------------------------
// 1. contract stubs
// ------------------------------------------------------------------------------------------------
pub fn message_words(m: &Message, w: &mut Words) {
    match m {
        Message::InterchainTransfer(t) => {
            w.push(0);
            t.token_id.to_words(w);
            t.source_address.to_words(w);
            t.destination_address.to_words(w);
            t.amount.to_words(w);
            t.data.to_words(w);
        }
        Message::DeployInterchainToken(d) => {
            w.push(1);
            d.token_id.to_words(w);
            d.name.to_words(w);
            d.symbol.to_words(w);
            d.decimals.to_words(w);
            d.minter.to_words(w);
        }
    }
}
pub fn words_of_message(m: &Message) -> Words {
    let mut w = Words::new();
    message_words(m, &mut w);
    w.pad_to(11);
    w
}
pub fn words_of_hub(h: &HubMessage) -> Words {
    let mut w = Words::new();
    match h {
        HubMessage::SendToHub { destination_chain, message } => {
            w.push(3);
            destination_chain.to_words(&mut w);
            message_words(message, &mut w);
        }
        HubMessage::ReceiveFromHub { source_chain, message } => {
            w.push(4);
            source_chain.to_words(&mut w);
            message_words(message, &mut w);
        }
    }
    w.pad_to(13);
    w
}
/// the canonical ABI encoding of a hub message, as an abstract byte string: an injective function of
/// the message (two different messages never share an encoding)
pub fn spec_encoding(h: &HubMessage) -> Bytes {
    let mut w = words_of_hub(h);
    w.push(0xAB1_C0DEC);
    Bytes { id: shim::intern(w) }
}

pub static mut ENCODED: Option<Words> = None;
/// contract of `HubMessage::abi_encode`: Ok(canonical encoding) — or Err(InvalidUtf8) for a chain /
/// name / symbol that is not UTF-8; a negative amount traps.
pub fn hub_encode_contract(h: HubMessage, _env: &Env) -> Result<Bytes, ContractError> {
    unsafe { ENCODED = Some(words_of_hub(&h)) };
    if let HubMessage::SendToHub { message: Message::InterchainTransfer(t), .. } | HubMessage::ReceiveFromHub { message: Message::InterchainTransfer(t), .. } = &h {
        if t.amount < 0 {
            shim::trap();
        }
    }
    if kani::any() {
        Ok(spec_encoding(&h))
    } else {
        Err(ContractError::InvalidUtf8)
    }
}

pub fn symbolic_message() -> Message {
    if kani::any() {
        Message::InterchainTransfer(TTransfer {
            token_id: BytesN::symbolic(),
            source_address: Bytes::symbolic(),
            destination_address: Bytes::symbolic(),
            amount: kani::any(),
            data: Option::<Bytes>::symbolic(),
        })
    } else {
        Message::DeployInterchainToken(TDeploy {
            token_id: BytesN::symbolic(),
            name: String::symbolic(),
            symbol: String::symbolic(),
            decimals: kani::any(),
            minter: Option::<Bytes>::symbolic(),
        })
    }
}
pub fn any_error() -> ContractError {
    <ContractError as Wordy>::symbolic()
}

pub static mut TYPE_OF: Option<(u64, u8)> = None;
pub static mut DECODED: Option<HubMessage> = None;
/// contract of `get_message_type`: an uninterpreted function of the payload (its first word)
pub fn get_message_type_contract(_payload: &[u8]) -> Result<MessageType, ContractError> {
    let id = match shim::take_abstract_content() {
        Some(id) => id,
        // concrete content (only the empty payload is concrete in service-level harnesses)
        None => {
            if _payload.len() < 32 {
                return Err(ContractError::InsufficientMessageLength);
            }
            shim::harness_bug("get_message_type contract stub on concrete content")
        }
    };
    let t: u8 = kani::any();
    unsafe { TYPE_OF = Some((id, t)) };
    match t {
        0 => Ok(MessageType::InterchainTransfer),
        1 => Ok(MessageType::DeployInterchainToken),
        2 => Ok(MessageType::DeployTokenManager),
        3 => Ok(MessageType::SendToHub),
        4 => Ok(MessageType::ReceiveFromHub),
        5 => Err(ContractError::InsufficientMessageLength),
        _ => Err(ContractError::InvalidMessageType),
    }
}
/// contract of `HubMessage::abi_decode` (A-ALLOY + C10): `Ok(m)` only if the payload is the canonical
/// encoding of `m` (so re-encoding reproduces the input), amounts are in 0..=i128::MAX, the outer tag
/// is the one `get_message_type` reports for this payload; everything else is an `Err`.
pub fn hub_decode_contract(_env: &Env, payload: &Bytes) -> Result<HubMessage, ContractError> {
    if !kani::any::<bool>() {
        return Err(any_error());
    }
    let inner = symbolic_message();
    if let Message::InterchainTransfer(t) = &inner {
        kani::assume(t.amount >= 0);
        // an empty optional byte field reads back as absent
        kani::assume(!matches!(&t.data, Some(d) if d.is_empty()));
    }
    if let Message::DeployInterchainToken(d) = &inner {
        kani::assume(!matches!(&d.minter, Some(m) if m.is_empty()));
    }
    let chain = String::symbolic();
    let m = if kani::any() {
        HubMessage::SendToHub { destination_chain: chain, message: inner }
    } else {
        HubMessage::ReceiveFromHub { source_chain: chain, message: inner }
    };
    kani::assume(spec_encoding(&m).id == payload.id);
    if let Some((id, t)) = unsafe { TYPE_OF } {
        if id == payload.id {
            kani::assume(t == if matches!(m, HubMessage::SendToHub { .. }) { 3 } else { 4 });
        }
    }
    unsafe { DECODED = Some(m.clone()) };
    Ok(m)
}

// ------------------------------------------------------------------------------------------------
// 2. C10: what can be decided of the codec itself
// ------------------------------------------------------------------------------------------------
/// to_i128 over the full 256-bit domain: Ok(x) <=> value <= i128::MAX, and then x == value
#[kani::proof]
fn c10_to_i128_full_domain() {
    let limbs: [u64; 4] = [kani::any(), kani::any(), kani::any(), kani::any()];
    let v = Uint::<256, 4>::from_limbs(limbs);
    let r = to_i128(v);
    let fits = limbs[2] == 0 && limbs[3] == 0 && limbs[1] < (1u64 << 63);
    match r {
        Ok(x) => {
            soroban_sdk::obl!(fits, "OBL C10.amount_above_i128_max_rejected: amounts above 2^127-1 never decode");
            soroban_sdk::obl!(x >= 0 && (x as u128) == ((limbs[1] as u128) << 64 | limbs[0] as u128), "OBL C10.amount_value_exact");
            kani::cover!(x == i128::MAX, "COVER to_i128 max");
        }
        Err(e) => {
            soroban_sdk::obl!(!fits && e == ContractError::InvalidAmount, "OBL C10.amount_in_range_accepted: every amount in 0..=2^127-1 decodes");
            kani::cover!(limbs[1] == (1u64 << 63) && limbs[2] == 0 && limbs[3] == 0 && limbs[0] == 0, "COVER to_i128 2^127 rejected");
        }
    }
}

/// the numeric tag the encoders write for each message kind
#[kani::proof]
fn c10_message_type_tags() {
    soroban_sdk::obl!(
        <U256 as From<MessageType>>::from(MessageType::InterchainTransfer) == U256::from(0u8)
            && <U256 as From<MessageType>>::from(MessageType::DeployInterchainToken) == U256::from(1u8)
            && <U256 as From<MessageType>>::from(MessageType::DeployTokenManager) == U256::from(2u8)
            && <U256 as From<MessageType>>::from(MessageType::SendToHub) == U256::from(3u8)
            && <U256 as From<MessageType>>::from(MessageType::ReceiveFromHub) == U256::from(4u8),
        "OBL C10.message_type_tags: the encoders write tags 0..4 as in the ITS wire format"
    );
    kani::cover!(true, "COVER tags");
}

/// optional byte fields: absent <-> empty, and nothing else is lost (one harness per concrete length)
fn optional_bytes_case(some: bool, n: usize) {
    let env = Env::default();
    let content: [u8; 2] = [kani::any(), kani::any()];
    let input: Option<Bytes> = if some { Some(Bytes::from_slice(&env, &content[..n])) } else { None };
    let v = into_vec(input.clone());
    soroban_sdk::obl!(v.len() == if some { n } else { 0 } && (n < 1 || !some || v[0] == content[0]) && (n < 2 || !some || v[1] == content[1]), "OBL C10.optional_bytes_encode: an absent field is written as the empty byte string, a present one verbatim");
    let back = from_vec(&env, &v);
    soroban_sdk::obl!(
        match (&input, &back) {
            (Some(b), Some(c)) => n > 0 && b == c,
            (Some(_), None) => n == 0,
            (None, None) => true,
            (None, Some(_)) => false,
        },
        "OBL C10.optional_bytes_roundtrip: decoding gives the same field back, an empty optional field reads back as absent"
    );
    kani::cover!(true, "COVER optional bytes case");
}
#[kani::proof]
fn c10_optional_bytes_absent() {
    optional_bytes_case(false, 0)
}
#[kani::proof]
fn c10_optional_bytes_empty_bounded() {
    optional_bytes_case(true, 0)
}
#[kani::proof]
fn c10_optional_bytes_len2_bounded() {
    optional_bytes_case(true, 2)
}

/// alloy's error constructor hex-encodes the offending bytes for its message (const-hex probes the
/// CPU with inline asm, which Kani cannot model); the message is never inspected by the repository
/// (`map_err(|_| ...)`), so the constructor is replaced by one that builds a message-less error.
fn type_check_fail_stub(_data: &[u8], _expected_type: impl Into<alloc::borrow::Cow<'static, str>>) -> alloy_sol_types::Error {
    alloy_sol_types::Error::Overrun
}

/// get_message_type on the 32-byte head: Ok(t) only for 31 zero bytes followed by a tag < 5, and then t is that tag
#[kani::proof]
#[kani::stub(alloy_sol_types::Error::type_check_fail, type_check_fail_stub)]
fn c10_get_message_type_head() {
    let head: [u8; 32] = kani::any();
    let r = get_message_type(&head);
    let mut zeros = true;
    let mut i = 0;
    while i < 31 {
        if head[i] != 0 {
            zeros = false;
        }
        i += 1;
    }
    if r.is_err() {
        soroban_sdk::obl!(!(zeros && head[31] < 5), "OBL C10.canonical_tag_accepted: every canonically padded tag 0..=4 decodes");
        kani::cover!(zeros && head[31] == 5, "COVER gmt unsupported type rejected");
        kani::cover!(!zeros && head[31] < 5, "COVER gmt dirty padding rejected");
    }
    if let Ok(t) = r {
        soroban_sdk::obl!(zeros && head[31] < 5, "OBL C10.tag_padding_and_range: a message type decodes only from a canonically padded word with tag 0..=4 (malformed padding and unsupported types are rejected)");
        soroban_sdk::obl!(<U256 as From<MessageType>>::from(t) == U256::from(head[31]), "OBL C10.tag_value_exact");
        kani::cover!(head[31] == 4, "COVER gmt receive from hub");
    }
}
/// fewer than 32 bytes never decode
#[kani::proof]
fn c10_get_message_type_short() {
    let buf: [u8; 31] = kani::any();
    let n: usize = kani::any();
    kani::assume(n <= 31);
    let r = get_message_type(&buf[..n]);
    soroban_sdk::obl!(matches!(r, Err(ContractError::InsufficientMessageLength)), "OBL C10.short_payload_rejected");
    kani::cover!(n == 31, "COVER gmt 31 bytes");
}

