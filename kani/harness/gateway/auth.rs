// Contracts and proof harnesses for contracts/axelar-gateway/src/auth.rs (child module: private
// functions are reachable through `super::*`).
//
// Each contract exists twice from one set of predicates: a *proof harness* (assume requires, run the
// real function on symbolic inputs and an arbitrary pre-state, assert every `OBL …` ensures) and a
// *contract stub* `<fn>_contract` that callers' harnesses substitute with #[kani::stub].
use super::*;
// named explicitly: the harness must not depend on which of these the file under verification happens to import
use crate::error::ContractError;
use crate::storage_types::DataKey;
use crate::types::{Proof, ProofSignature, ProofSigner, WeightedSigner, WeightedSigners};
use soroban_sdk::{Bytes, BytesN, Env};
use soroban_sdk::shim::{self, inst, pers, Wordy, Words};
use soroban_sdk::xdr::ToXdr;
use soroban_sdk::Symbol;

pub fn any_error() -> ContractError {
    <ContractError as Wordy>::symbolic()
}

// ------------------------------------------------------------------------------------------------
// spec terms (written independently of the repository's helpers)
// ------------------------------------------------------------------------------------------------
/// ⟦keccak(xdr(ws))⟧
pub fn spec_signers_hash(env: &Env, ws: &WeightedSigners) -> BytesN<32> {
    env.crypto().keccak256(&ws.clone().to_xdr(env)).into()
}

// ------------------------------------------------------------------------------------------------
// contract of `validate_signers` — PROVED IN VERUS (C03.validate_signers.wellformed):
//   Ok ⇒ wf(ws).   `wf` is uninterpreted here; the stub may return Ok only when it holds.
// ------------------------------------------------------------------------------------------------
pub static mut WF_ORACLE: Option<(Words, bool)> = None;
/// the uninterpreted predicate wf(ws) (one signer set per run)
pub fn wf(ws: &WeightedSigners) -> bool {
    let w = Words::of(ws);
    unsafe {
        match WF_ORACLE {
            Some((k, v)) => {
                if k != w {
                    shim::harness_bug("wf oracle: second signer set");
                }
                v
            }
            None => {
                let v: bool = kani::any();
                WF_ORACLE = Some((w, v));
                v
            }
        }
    }
}
pub fn validate_signers_contract(_env: &Env, ws: &WeightedSigners) -> Result<(), ContractError> {
    shim::log_internal("validate_signers", Words::of(ws));
    if wf(ws) && kani::any() {
        Ok(())
    } else {
        Err(any_error())
    }
}

// ------------------------------------------------------------------------------------------------
// contract of `update_rotation_timestamp` (C09)
// ------------------------------------------------------------------------------------------------
/// has at least the configured minimum delay elapsed since the last rotation (0 if none)?
fn delay_elapsed_pre() -> Option<bool> {
    let min: Option<u64> = inst().pre(&DataKey::MinimumRotationDelay);
    let last: u64 = inst().pre::<_, u64>(&DataKey::LastRotationTimestamp).unwrap_or(0);
    let now = shim::host().timestamp;
    match min {
        Some(min) if now >= last => Some(now - last >= min),
        _ => None, // the real function traps (missing configuration, clock before last rotation)
    }
}
pub fn update_rotation_timestamp_contract(env: &Env, enforce: bool) -> Result<(), ContractError> {
    shim::log_internal("update_rotation_timestamp", Words::of(&enforce));
    // current values: the stub may run after other writes of the caller
    let min: Option<u64> = inst().post(&DataKey::MinimumRotationDelay);
    let last: u64 = inst().post::<_, u64>(&DataKey::LastRotationTimestamp).unwrap_or(0);
    let now = shim::host().timestamp;
    let (min, ok_clock) = match min {
        Some(m) => (m, now >= last),
        None => shim::trap(),
    };
    if !ok_clock {
        shim::trap();
    }
    if enforce && now - last < min {
        return Err(ContractError::InsufficientRotationDelay);
    }
    env.storage().instance().set(&DataKey::LastRotationTimestamp, &now);
    Ok(())
}

#[kani::proof]
fn c09_update_rotation_timestamp() {
    let env = Env::default();
    let h = shim::fresh_host();
    let enforce: bool = kani::any();
    let now = h.timestamp;

    let r = update_rotation_timestamp(&env, enforce);

    let elapsed = delay_elapsed_pre();
    match r {
        Ok(()) => {
            soroban_sdk::obl!(!enforce || elapsed == Some(true), "OBL C09.delay_enforced: Ok with enforcement only if now - last >= minimum delay");
            soroban_sdk::obl!(
                inst().post::<_, u64>(&DataKey::LastRotationTimestamp) == Some(now),
                "OBL C09.clock_restarted: every successful rotation (bypass or not) restarts the clock at now"
            );
            soroban_sdk::obl!(
                inst().changed_only(&[Words::of(&DataKey::LastRotationTimestamp)]) && pers().n_changed() == 0,
                "OBL C09.frame: only LastRotationTimestamp is written"
            );
            kani::cover!(enforce, "COVER c09 ok enforced");
            kani::cover!(!enforce && elapsed == Some(false), "COVER c09 ok bypass although too early");
        }
        Err(e) => {
            soroban_sdk::obl!(enforce && elapsed == Some(false), "OBL C09.err_only_when_too_early: never refused when bypassing or when the delay elapsed");
            soroban_sdk::obl!(e == ContractError::InsufficientRotationDelay, "OBL C09.err_code");
            soroban_sdk::obl!(shim::no_effects(), "OBL C09.err_no_effect: a refused rotation leaves the clock untouched");
            kani::cover!(true, "COVER c09 err");
        }
    }
}

// ------------------------------------------------------------------------------------------------
// contract of `auth::rotate_signers` (C03)
// ------------------------------------------------------------------------------------------------
/// contract stub used by contract::rotate_signers / initialize_auth harnesses
/// verdict of the last `rotate_signers_contract` call (None: never called)
pub static mut RS_RESULT: Option<Result<(), ContractError>> = None;
pub fn rotate_signers_contract(env: &Env, new_signers: &WeightedSigners, enforce: bool) -> Result<(), ContractError> {
    let r = rotate_signers_contract_inner(env, new_signers, enforce);
    unsafe { RS_RESULT = Some(r) };
    r
}
fn rotate_signers_contract_inner(env: &Env, new_signers: &WeightedSigners, enforce: bool) -> Result<(), ContractError> {
    shim::log_internal("auth::rotate_signers", Words::of(&(new_signers.clone(), enforce)));
    if !(wf(new_signers) && kani::any()) {
        return Err(any_error());
    }
    update_rotation_timestamp_contract(env, enforce)?;
    let hsh = spec_signers_hash(env, new_signers);
    let e0: u64 = match inst().post(&DataKey::Epoch) {
        Some(e) => e,
        None => shim::trap(),
    };
    if e0 == u64::MAX {
        shim::trap();
    }
    let e1 = e0 + 1;
    if pers().post_has(&DataKey::EpochBySignersHash(hsh)) {
        // a refusal may leave a half-done installation behind (the real function bumps the epoch before
        // its duplicate check and relies on the caller returning the error, so that the host rolls back)
        env.storage().instance().set(&DataKey::Epoch, &e1);
        return Err(ContractError::DuplicateSigners);
    }
    env.storage().instance().set(&DataKey::Epoch, &e1);
    env.storage().persistent().set(&DataKey::SignersHashByEpoch(e1), &hsh);
    env.storage().persistent().set(&DataKey::EpochBySignersHash(hsh), &e1);
    event::rotate_signers(env, e1, hsh);
    Ok(())
}

fn symbolic_signers() -> WeightedSigners {
    // abstract signer vector: arbitrary length and content (its content is only ever inspected by
    // validate_signers, which is replaced by its Verus-proved contract)
    WeightedSigners { signers: soroban_sdk::Vec::abstract_symbolic(), threshold: kani::any(), nonce: BytesN::symbolic() }
}

#[kani::proof]
#[kani::stub(validate_signers, validate_signers_contract)]
#[kani::stub(update_rotation_timestamp, update_rotation_timestamp_contract)]
fn c03_rotate_signers() {
    let env = Env::default();
    let _h = shim::fresh_host();
    let ws = symbolic_signers();
    let enforce: bool = kani::any();

    let r = rotate_signers(&env, &ws, enforce);

    let hsh = spec_signers_hash(&env, &ws);
    let e0: Option<u64> = inst().pre(&DataKey::Epoch);
    match r {
        Ok(()) => {
            soroban_sdk::obl!(wf(&ws), "OBL C03.wellformed_only: a set is installed only if validate_signers accepted it");
            soroban_sdk::obl!(
                shim::internal_called("validate_signers", &ws),
                "OBL C03.validated_this_set: validate_signers was asked about exactly this set"
            );
            soroban_sdk::obl!(
                shim::internal_called("update_rotation_timestamp", &enforce),
                "OBL C03.delay_flag_forwarded: the rotation clock is consulted with the caller's enforcement flag"
            );
            let e1 = match e0 {
                Some(e) => e.wrapping_add(1),
                None => 0,
            };
            soroban_sdk::obl!(e0.is_some() && e0 != Some(u64::MAX) && inst().post::<_, u64>(&DataKey::Epoch) == Some(e1), "OBL C03.epoch_plus_one");
            soroban_sdk::obl!(pers().post::<_, BytesN<32>>(&DataKey::SignersHashByEpoch(e1)) == Some(hsh), "OBL C03.hash_by_epoch_set");
            soroban_sdk::obl!(!pers().pre_has(&DataKey::EpochBySignersHash(hsh)), "OBL C03.never_installed_before");
            soroban_sdk::obl!(pers().post::<_, u64>(&DataKey::EpochBySignersHash(hsh)) == Some(e1), "OBL C03.epoch_by_hash_set");
            soroban_sdk::obl!(
                shim::n_events() == 1 && shim::event_is(0, &(Symbol::new(&env, "signers_rotated"), e1, hsh), &()),
                "OBL C03.one_rotation_event: exactly one signers_rotated(epoch, hash) event"
            );
            soroban_sdk::obl!(
                inst().changed_only(&[Words::of(&DataKey::Epoch), Words::of(&DataKey::LastRotationTimestamp)])
                    && pers().changed_only(&[Words::of(&DataKey::SignersHashByEpoch(e1)), Words::of(&DataKey::EpochBySignersHash(hsh))]),
                "OBL C03.frame: no other key is written"
            );
            kani::cover!(true, "COVER c03_rotate ok");
        }
        Err(_) => {
            kani::cover!(!wf(&ws), "COVER c03_rotate err invalid set");
            kani::cover!(wf(&ws) && pers().pre_has(&DataKey::EpochBySignersHash(hsh)), "COVER c03_rotate err duplicate");
        }
    }
}

/// Gateway invariant I-GW, instantiated at one arbitrary witness pair (e*, h*) — proving it
/// preserved for an arbitrary witness proves the universally quantified invariant:
///   (A) EpochBySignersHash(h) = e  ⇒ 1 ≤ e ≤ Epoch ∧ SignersHashByEpoch(e) = h
///   (B) SignersHashByEpoch(e) = h  ⇒ 1 ≤ e ≤ Epoch ∧ EpochBySignersHash(h) = e
fn igw_a(pre: bool, hstar: &BytesN<32>) -> bool {
    let epoch: Option<u64> = if pre { inst().pre(&DataKey::Epoch) } else { inst().post(&DataKey::Epoch) };
    let e: Option<u64> = if pre { pers().pre(&DataKey::EpochBySignersHash(*hstar)) } else { pers().post(&DataKey::EpochBySignersHash(*hstar)) };
    match (e, epoch) {
        (None, _) => true,
        (Some(e), Some(ep)) => {
            let back: Option<BytesN<32>> = if pre { pers().pre(&DataKey::SignersHashByEpoch(e)) } else { pers().post(&DataKey::SignersHashByEpoch(e)) };
            1 <= e && e <= ep && back == Some(*hstar)
        }
        (Some(_), None) => false,
    }
}
fn igw_b(pre: bool, estar: u64) -> bool {
    let epoch: Option<u64> = if pre { inst().pre(&DataKey::Epoch) } else { inst().post(&DataKey::Epoch) };
    let hh: Option<BytesN<32>> = if pre { pers().pre(&DataKey::SignersHashByEpoch(estar)) } else { pers().post(&DataKey::SignersHashByEpoch(estar)) };
    match (hh, epoch) {
        (None, _) => true,
        (Some(hh), Some(ep)) => {
            let back: Option<u64> = if pre { pers().pre(&DataKey::EpochBySignersHash(hh)) } else { pers().post(&DataKey::EpochBySignersHash(hh)) };
            1 <= estar && estar <= ep && back == Some(estar)
        }
        (Some(_), None) => false,
    }
}

#[kani::proof]
#[kani::stub(validate_signers, validate_signers_contract)]
#[kani::stub(update_rotation_timestamp, update_rotation_timestamp_contract)]
fn c03_rotate_signers_preserves_lookup_invariant() {
    let env = Env::default();
    let _h = shim::fresh_host();
    let ws = symbolic_signers();
    let hstar: BytesN<32> = BytesN::symbolic();
    let estar: u64 = kani::any();
    // requires: I-GW at the witnesses and at the slot the step is about to use
    let e0: Option<u64> = inst().pre(&DataKey::Epoch);
    kani::assume(igw_a(true, &hstar));
    kani::assume(igw_b(true, estar));
    if let Some(e) = e0 {
        kani::assume(igw_b(true, e.wrapping_add(1)));
    }
    let hnew = spec_signers_hash(&env, &ws);
    kani::assume(igw_a(true, &hnew));

    let r = rotate_signers(&env, &ws, kani::any());

    if r.is_ok() {
        soroban_sdk::obl!(igw_a(false, &hstar), "OBL C03.inv_set_to_epoch: set→epoch lookups stay inverse to epoch→set over all installed epochs");
        soroban_sdk::obl!(igw_b(false, estar), "OBL C03.inv_epoch_to_set: epoch→set lookups stay inverse to set→epoch over all installed epochs");
        kani::cover!(true, "COVER c03_inv ok");
        kani::cover!(hstar == hnew, "COVER c03_inv witness is the new set");
    }
}

// ------------------------------------------------------------------------------------------------
// `initialize_auth` (C03 construction; BOUNDED: at most 2 initial signer sets)
// ------------------------------------------------------------------------------------------------
pub static mut ROTATE_CALLS: u32 = 0;
pub static mut ROTATE_ENFORCED: bool = false;
pub static mut ROTATE_FAIL_AT: u32 = u32::MAX;
/// contract stub for the construction loop: counts calls, fails (per oracle) at most once
pub fn rotate_signers_counting(env: &Env, new_signers: &WeightedSigners, enforce: bool) -> Result<(), ContractError> {
    unsafe {
        ROTATE_CALLS += 1;
        if enforce {
            ROTATE_ENFORCED = true;
        }
    }
    let e0: u64 = match inst().post(&DataKey::Epoch) {
        Some(e) => e,
        None => shim::trap(),
    };
    if unsafe { ROTATE_CALLS - 1 == ROTATE_FAIL_AT } {
        // a refusal may leave a half-done installation behind (epoch already bumped): see rotate_signers_contract
        if kani::any() {
            env.storage().instance().set(&DataKey::Epoch, &(e0 + 1));
        }
        return Err(any_error());
    }
    env.storage().instance().set(&DataKey::Epoch, &(e0 + 1));
    let _ = new_signers;
    Ok(())
}

/// construction with a *concrete* number `n` of initial signer sets (the sets themselves are
/// abstract, of arbitrary size): one harness per n, so no unwinding bound is in play inside a case
fn ctor_case(n: u32) -> bool {
    let env = Env::default();
    let _h = shim::fresh_host();
    let mut sets: soroban_sdk::Vec<WeightedSigners> = soroban_sdk::Vec::new(&env);
    let mut i = 0;
    while i < n {
        sets.push_back(symbolic_signers());
        i += 1;
    }
    unsafe { ROTATE_FAIL_AT = kani::any() };
    let domain: BytesN<32> = BytesN::symbolic();
    let min_delay: u64 = kani::any();
    let retention: u64 = kani::any();

    let r = initialize_auth(env.clone(), domain, min_delay, retention, sets);

    let calls = unsafe { ROTATE_CALLS };
    match r {
        Ok(()) => {
            soroban_sdk::obl!(n >= 1, "OBL C03.ctor_needs_signers: construction with no signer set fails");
            soroban_sdk::obl!(calls == n && !unsafe { ROTATE_ENFORCED }, "OBL C03.ctor_every_set_rotated: every initial set goes through rotate_signers(.., enforce=false), once");
            soroban_sdk::obl!(inst().post::<_, u64>(&DataKey::Epoch) == Some(n as u64), "OBL C03.ctor_epoch_counts_sets: epoch starts at 0 and ends at the number of installed sets");
            soroban_sdk::obl!(unsafe { ROTATE_FAIL_AT } >= calls, "OBL C03.ctor_propagates_refusal: construction succeeds only if every installation succeeded (a refused set is never skipped: the epoch would count a set that was not installed)");
            soroban_sdk::obl!(inst().post::<_, u64>(&DataKey::PreviousSignerRetention) == Some(retention), "OBL C03.ctor_retention_stored");
            soroban_sdk::obl!(inst().post::<_, BytesN<32>>(&DataKey::DomainSeparator) == Some(domain), "OBL C03.ctor_domain_stored");
            soroban_sdk::obl!(inst().post::<_, u64>(&DataKey::MinimumRotationDelay) == Some(min_delay), "OBL C03.ctor_delay_stored");
            true
        }
        Err(e) => {
            soroban_sdk::obl!(n == 0 || unsafe { ROTATE_FAIL_AT } < n, "OBL C03.ctor_err_only_if_empty_or_rotation_failed");
            soroban_sdk::obl!(n != 0 || e == ContractError::EmptySigners, "OBL C03.ctor_empty_code");
            false
        }
    }
}
#[kani::proof]
#[kani::stub(rotate_signers, rotate_signers_counting)]
fn c03_initialize_auth_n0_bounded() {
    let ok = ctor_case(0);
    kani::cover!(!ok, "COVER c03_ctor n0 err");
}
#[kani::proof]
#[kani::stub(rotate_signers, rotate_signers_counting)]
fn c03_initialize_auth_n1_bounded() {
    let ok = ctor_case(1);
    kani::cover!(ok, "COVER c03_ctor n1 ok");
    kani::cover!(!ok, "COVER c03_ctor n1 err");
}
#[kani::proof]
#[kani::stub(rotate_signers, rotate_signers_counting)]
fn c03_initialize_auth_n2_bounded() {
    let ok = ctor_case(2);
    kani::cover!(ok, "COVER c03_ctor n2 ok");
    kani::cover!(!ok, "COVER c03_ctor n2 err");
}

// ------------------------------------------------------------------------------------------------
// contract of `validate_proof` — PROVED IN VERUS (C01.validate_proof.*, C08.validate_proof.*).
// Callers only need: read-only; returns Ok(is_latest) / Err; the verdict is an uninterpreted
// function of (data_hash, proof, state).  The stub records its arguments.
// ------------------------------------------------------------------------------------------------
pub static mut VP_RESULT: Option<Result<bool, ContractError>> = None;
pub fn validate_proof_contract(_env: &Env, data_hash: &BytesN<32>, proof: Proof) -> Result<bool, ContractError> {
    shim::log_internal("auth::validate_proof", Words::of(&(*data_hash, proof)));
    let r: Result<bool, ContractError> = if kani::any() { Ok(kani::any()) } else { Err(any_error()) };
    unsafe { VP_RESULT = Some(r) };
    r
}
pub fn symbolic_proof() -> Proof {
    Proof { signers: soroban_sdk::Vec::abstract_symbolic(), threshold: kani::any(), nonce: BytesN::symbolic() }
}


// ------------------------------------------------------------------------------------------------
// Kani companions of the Verus contracts on validate_proof / validate_signatures.  The Verus side
// proves them for signer sets of any size on the mechanically extracted text; it is "undecided"
// whenever a change gives the functions a shape the extraction does not support (a second loop, a
// `continue`, a new host call).  These harnesses decide the same clauses on the unmodified source
// under Kani — validate_proof for ANY size (its two callees that look into the signer list are
// replaced by contracts), validate_signatures BOUNDED to 3 proof entries.
// ------------------------------------------------------------------------------------------------
/// contract stub of `Proof::weighted_signers` (proved: Verus C01.weighted_signers.*, Kani
/// c01_weighted_signers_n3_bounded): an injective function of the proof's signer list, keeping
/// threshold and nonce
pub fn weighted_signers_contract(p: &Proof) -> WeightedSigners {
    let (len, id) = match p.signers.abs {
        Some(x) => x,
        None => shim::harness_bug("weighted_signers stub: concrete proof"),
    };
    let mut w = Words::new();
    w.push(0x5167_5E75);
    w.push(id);
    let mut v: soroban_sdk::Vec<WeightedSigner> = soroban_sdk::Vec::abstract_symbolic();
    v.abs = Some((len, shim::intern(w)));
    WeightedSigners { signers: v, threshold: p.threshold, nonce: p.nonce.clone() }
}
pub static mut VS_RESULT: Option<bool> = None;
/// contract stub of `validate_signatures`: an uninterpreted verdict about (digest, proof); read-only
pub fn validate_signatures_contract(_env: &Env, msg_hash: soroban_sdk::crypto::Hash<32>, proof: Proof) -> bool {
    shim::log_internal("auth::validate_signatures", Words::of(&(msg_hash.to_bytes(), proof)));
    let r: bool = kani::any();
    unsafe { VS_RESULT = Some(r) };
    r
}

#[kani::proof]
#[kani::stub(crate::types::Proof::weighted_signers, weighted_signers_contract)]
#[kani::stub(validate_signatures, validate_signatures_contract)]
fn c08_validate_proof() {
    let env = Env::default();
    let _h = shim::fresh_host();
    let proof = symbolic_proof();
    let dh: BytesN<32> = BytesN::symbolic();

    let r = validate_proof(&env, &dh, proof.clone());

    let hsh = spec_signers_hash(&env, &weighted_signers_contract(&proof));
    let e: Option<u64> = pers().pre(&DataKey::EpochBySignersHash(hsh));
    let cur: Option<u64> = inst().pre(&DataKey::Epoch);
    let ret: Option<u64> = inst().pre(&DataKey::PreviousSignerRetention);
    let vs = unsafe { VS_RESULT };
    soroban_sdk::obl!(shim::no_external_effects() && shim::n_auth() == 0, "OBL C01.vp_read_only: checking a proof changes nothing (no write in any storage class, no event, no call)");
    match r {
        Ok(latest) => {
            soroban_sdk::obl!(
                matches!((e, cur, ret), (Some(e), Some(c), Some(rt)) if e <= c && c - e <= rt),
                "OBL C08.vp_retention: accepted only if the proof's signer set is registered and at most `retention` newer sets have been installed"
            );
            soroban_sdk::obl!(matches!((e, cur), (Some(e), Some(c)) if latest == (e == c)), "OBL C08.vp_latest_flag: the flag is true exactly for the newest set");
            let digest: BytesN<32> = message_hash_to_sign(&env, hsh, &dh).to_bytes();
            soroban_sdk::obl!(
                vs == Some(true) && shim::internal_called("auth::validate_signatures", &(digest, proof.clone())),
                "OBL C01.vp_signatures_checked: accepted only if validate_signatures accepted exactly this proof over the digest of (domain, this signer set, this data hash)"
            );
            kani::cover!(latest, "COVER c08_vp ok latest");
            kani::cover!(!latest, "COVER c08_vp ok retained");
        }
        Err(err) => {
            soroban_sdk::obl!(
                match (e, cur, ret) {
                    (None, _, _) => err == ContractError::InvalidSignersHash,
                    (Some(e), Some(c), Some(rt)) => (e <= c && c - e > rt && err == ContractError::OutdatedSigners) || (e <= c && c - e <= rt && vs == Some(false) && err == ContractError::InvalidSignatures),
                    _ => false,
                },
                "OBL C08.vp_refused_only_when: a proof is refused only for an unregistered set, a set older than the retention window, or insufficient signatures — a retained set with sufficient signatures is never refused"
            );
            kani::cover!(err == ContractError::OutdatedSigners, "COVER c08_vp outdated");
            kani::cover!(err == ContractError::InvalidSignatures, "COVER c08_vp bad signatures");
        }
    }
}

/// one case per pattern of signed / unsigned entries (concrete pattern, symbolic keys, weights,
/// signatures, threshold and digest): the union of the patterns of a length is every proof of that length
fn validate_signatures_case(pattern: &[bool]) {
    let env = Env::default();
    let _h = shim::fresh_host();
    let n = pattern.len();
    let mut v: soroban_sdk::Vec<ProofSigner> = soroban_sdk::Vec::new(&env);
    let mut i = 0;
    while i < n {
        let signature = if pattern[i] { ProofSignature::Signed(BytesN::symbolic()) } else { ProofSignature::Unsigned };
        v.push_back(ProofSigner { signer: <WeightedSigner as Wordy>::symbolic(), signature });
        i += 1;
    }
    let proof = Proof { signers: v, threshold: kani::any(), nonce: BytesN::symbolic() };
    let digest: soroban_sdk::crypto::Hash<32> = <soroban_sdk::crypto::Hash<32> as Wordy>::symbolic();

    let r = validate_signatures(&env, digest, proof.clone());

    // weight of the entries that carry a VALID signature over this digest (oracle of axiom A-ED25519)
    let digest_bytes: BytesN<32> = digest.to_bytes();
    let msg: &Bytes = digest_bytes.as_ref();
    let mut valid_weight: u128 = 0;
    let mut i = 0;
    while i < n {
        if let Some(ProofSigner { signer, signature: ProofSignature::Signed(sig) }) = proof.signers.get(i as u32) {
            if shim::sig_valid(&signer.signer, msg, &sig) {
                valid_weight = valid_weight.saturating_add(signer.weight);
            }
        }
        i += 1;
    }
    soroban_sdk::obl!(
        !r || valid_weight >= proof.threshold,
        "OBL C01.validate_signatures_sound_bounded: true only if the entries carrying a valid signature over this digest weigh at least the threshold (every counted signature was verified)"
    );
    soroban_sdk::obl!(shim::no_effects(), "OBL C01.validate_signatures_pure_bounded");
    // (the real function never accepts a proof without a signed entry, so `accepted` is demanded reachable only for the other patterns)
    let mut any_signed = false;
    let mut i = 0;
    while i < n {
        any_signed = any_signed | pattern[i];
        i += 1;
    }
    kani::cover!(r || !any_signed, "COVER c01_vs accepted (where the pattern has a signed entry)");
    kani::cover!(!r, "COVER c01_vs rejected");
}
macro_rules! vs_case {
    ($name:ident, $pat:expr) => {
        // the unwinding bound only matters when a change gives the function a loop whose trip count the
        // model checker cannot fold to a constant (it is above every table size of the shim; unwinding
        // assertions stay on, so an insufficient bound is "undecided", never a wrong verdict)
        #[kani::proof]
        #[kani::unwind(26)]
        fn $name() {
            validate_signatures_case(&$pat);
        }
    };
}
vs_case!(c01_validate_signatures_ss_bounded, [true, true]);
vs_case!(c01_validate_signatures_su_bounded, [true, false]);
vs_case!(c01_validate_signatures_us_bounded, [false, true]);
vs_case!(c01_validate_signatures_uu_bounded, [false, false]);
vs_case!(c01_validate_signatures_sss_bounded, [true, true, true]);
vs_case!(c01_validate_signatures_ssu_bounded, [true, true, false]);
vs_case!(c01_validate_signatures_sus_bounded, [true, false, true]);
vs_case!(c01_validate_signatures_suu_bounded, [true, false, false]);
vs_case!(c01_validate_signatures_uss_bounded, [false, true, true]);
vs_case!(c01_validate_signatures_usu_bounded, [false, true, false]);
vs_case!(c01_validate_signatures_uus_bounded, [false, false, true]);
vs_case!(c01_validate_signatures_uuu_bounded, [false, false, false]);
