// Contract and proof harness for the default `AxelarExecutableInterface::validate_message`
// (contracts/axelar-gateway/src/executable.rs), on a minimal application that uses the default.
use super::*;
// named explicitly: the harness must not depend on which of these the file under verification happens to import
use axelar_soroban_std::ensure;
use soroban_sdk::contractclient;
use soroban_sdk::Address;
use soroban_sdk::Bytes;
use soroban_sdk::Env;
use soroban_sdk::String;
use crate::AxelarGatewayMessagingClient;
use soroban_sdk::contracterror;
use soroban_sdk::shim::{self, inst, pers, temp, Wordy, Words};
use soroban_sdk::BytesN;

pub struct MinimalApp;
static mut APP_GATEWAY: u64 = 0;
impl AxelarExecutableInterface for MinimalApp {
    fn gateway(_env: &Env) -> Address {
        Address(unsafe { APP_GATEWAY })
    }
    fn execute(_env: Env, _source_chain: String, _message_id: String, _source_address: String, _payload: Bytes) {}
}

#[kani::proof]
fn c16_default_validate_message() {
    let env = Env::default();
    let _h = shim::fresh_host();
    let me = env.current_contract_address();
    unsafe { APP_GATEWAY = kani::any() };
    let gw = Address(unsafe { APP_GATEWAY });
    let (sc, mid, sa) = (String::symbolic(), String::symbolic(), String::symbolic());
    let payload = Bytes::symbolic();

    let r = MinimalApp::validate_message(&env, &sc, &mid, &sa, &payload);

    let ph: BytesN<32> = env.crypto().keccak256(&payload).into();
    soroban_sdk::obl!(
        shim::n_calls() == 1 && shim::call_is(0, &gw, "validate_message", &(me.clone(), sc.clone(), mid.clone(), sa.clone(), ph)),
        "OBL C16.default_asks_gateway: exactly one gateway.validate_message(this app, same source chain, message id, source address, keccak256(delivered payload))"
    );
    soroban_sdk::obl!(r.is_ok() == shim::call_ret::<bool>(0), "OBL C16.default_ok_iff_consumed: Ok exactly when the gateway consumed an approval");
    soroban_sdk::obl!(matches!(r, Ok(()) | Err(ExecutableError::NotApproved)), "OBL C16.default_err_code");
    soroban_sdk::obl!(inst().n_changed() == 0 && pers().n_changed() == 0 && temp().n_changed() == 0 && shim::n_events() == 0, "OBL C16.default_frame");
    kani::cover!(r.is_ok(), "COVER default validate ok");
    kani::cover!(r.is_err(), "COVER default validate err");
}
