// Contracts and proof harnesses for contracts/axelar-gateway/src/contract.rs (entry points).
use super::*;
// named explicitly: the harness must not depend on which of these the file under verification happens to import
use crate::error::ContractError;
use crate::interface::AxelarGatewayInterface;
use crate::messaging_interface::AxelarGatewayMessagingInterface;
use crate::storage_types::{DataKey, MessageApprovalKey, MessageApprovalValue};
use crate::types::{CommandType, Message, Proof, WeightedSigners};
use soroban_sdk::xdr::ToXdr;
use soroban_sdk::{Address, Bytes, BytesN, Env, String, Vec};
use crate::auth::verif::{any_error, rotate_signers_contract, symbolic_proof, validate_proof_contract, wf, VP_RESULT};
use soroban_sdk::shim::{self, inst, pers, Wordy, Words, MIGRATING_KEY, OPERATOR_KEY, OWNER_KEY};
use soroban_sdk::Symbol;

fn sym_string() -> String {
    String::symbolic()
}
fn sym_message() -> Message {
    Message {
        source_chain: sym_string(),
        message_id: sym_string(),
        source_address: sym_string(),
        contract_address: Address::symbolic(),
        payload_hash: BytesN::symbolic(),
    }
}
/// ⟦DataKey::MessageApproval{source_chain, message_id}⟧ — built from the *pair*
fn approval_key(source_chain: &String, message_id: &String) -> DataKey {
    DataKey::MessageApproval(MessageApprovalKey { source_chain: source_chain.clone(), message_id: message_id.clone() })
}
/// ⟦Approved(keccak(xdr(message)))⟧
fn spec_approval(env: &Env, m: &Message) -> MessageApprovalValue {
    MessageApprovalValue::Approved(env.crypto().keccak256(&m.clone().to_xdr(env)).into())
}
/// structural equality of two records on their host representation — NOT the repository's own
/// `PartialEq` for the type (which is part of the code under verification)
fn same_status(a: &MessageApprovalValue, b: &MessageApprovalValue) -> bool {
    Words::of(a) == Words::of(b)
}
fn status_pre(k: &DataKey) -> MessageApprovalValue {
    pers().pre::<_, MessageApprovalValue>(k).unwrap_or(MessageApprovalValue::NotApproved)
}
fn status_post(k: &DataKey) -> MessageApprovalValue {
    pers().post::<_, MessageApprovalValue>(k).unwrap_or(MessageApprovalValue::NotApproved)
}

// ------------------------------------------------------------------------------------------------
// C13  call_contract
// ------------------------------------------------------------------------------------------------
#[kani::proof]
fn c13_call_contract() {
    let env = Env::default();
    let _h = shim::fresh_host();
    let caller = Address::symbolic();
    let chain = sym_string();
    let dest = sym_string();
    let payload = Bytes::symbolic();

    AxelarGateway::call_contract(env.clone(), caller.clone(), chain.clone(), dest.clone(), payload.clone());

    let hash: BytesN<32> = env.crypto().keccak256(&payload).into();
    soroban_sdk::obl!(shim::authed(&caller), "OBL C13.sender_authorised: an outbound call returns only under the named sender's authorisation");
    soroban_sdk::obl!(
        shim::n_events() == 1 && shim::event_is(0, &(Symbol::new(&env, "contract_called"), caller.clone(), chain, dest, hash), &payload),
        "OBL C13.one_exact_announcement: exactly one contract_called event carrying sender, destination chain and address, keccak256(payload) and the full payload"
    );
    soroban_sdk::obl!(
        inst().n_written() == 0 && pers().n_written() == 0 && shim::temp().n_written() == 0 && shim::n_calls() == 0 && shim::n_deploys() == 0,
        "OBL C13.no_state_change: an outbound call changes no gateway state"
    );
    kani::cover!(true, "COVER c13 returned");
}

/// BOUNDED companion of `c13_call_contract`: the destination chain is a string whose *bytes* are
/// symbolic (length 2) instead of an abstract identity, so code that looks into the text
/// (case folding, trimming, re-building the string from a buffer) is decided as well.
#[kani::proof]
fn c13_call_contract_text_len2_bounded() {
    let env = Env::default();
    let _h = shim::fresh_host();
    let caller = Address::symbolic();
    let cb: [u8; 2] = [kani::any(), kani::any()];
    let chain = String::with_content(&cb);
    let dest = sym_string();
    let payload = Bytes::symbolic();

    AxelarGateway::call_contract(env.clone(), caller.clone(), chain.clone(), dest.clone(), payload.clone());

    let hash: BytesN<32> = env.crypto().keccak256(&payload).into();
    soroban_sdk::obl!(
        shim::n_events() == 1 && shim::event_is(0, &(Symbol::new(&env, "contract_called"), caller.clone(), chain, dest, hash), &payload),
        "OBL C13.one_exact_announcement_text: the announced destination chain is byte for byte the one passed in (a string of 2 arbitrary bytes)"
    );
    kani::cover!(cb[0] == b'A' && cb[1] == 0, "COVER c13 text upper case and NUL");
}

// ------------------------------------------------------------------------------------------------
// C02  validate_message / is_message_approved / is_message_executed
// ------------------------------------------------------------------------------------------------
#[kani::proof]
fn c02_validate_message() {
    let env = Env::default();
    let _h = shim::fresh_host();
    let caller = Address::symbolic();
    let (sc, mid, sa) = (sym_string(), sym_string(), sym_string());
    let ph: BytesN<32> = BytesN::symbolic();

    let r = AxelarGateway::validate_message(env.clone(), caller.clone(), sc.clone(), mid.clone(), sa.clone(), ph);

    let msg = Message { source_chain: sc.clone(), message_id: mid.clone(), source_address: sa, contract_address: caller.clone(), payload_hash: ph };
    let k = approval_key(&sc, &mid);
    let expected = spec_approval(&env, &msg);
    let before = status_pre(&k);
    soroban_sdk::obl!(
        r == same_status(&before, &expected),
        "OBL C02.consume_iff_exact_approval: true exactly when the record is Approved(hash of the message with contract_address = caller, same source address and payload hash)"
    );
    if r {
        soroban_sdk::obl!(shim::authed(&caller), "OBL C02.consumer_authorised: a message is consumed only for the address that authorised the call");
        soroban_sdk::obl!(same_status(&status_post(&k), &MessageApprovalValue::Executed), "OBL C02.consumed_marks_executed");
        soroban_sdk::obl!(
            shim::n_events() == 1 && shim::event_is(0, &(Symbol::new(&env, "message_executed"), msg.clone()), &()),
            "OBL C02.one_executed_event"
        );
        soroban_sdk::obl!(pers().changed_only(&[Words::of(&k)]) && inst().n_changed() == 0 && shim::n_calls() == 0, "OBL C02.consume_frame: only this message's record changes");
        kani::cover!(true, "COVER c02_validate consumed");
    } else {
        soroban_sdk::obl!(shim::no_effects(), "OBL C02.refused_consume_no_effect");
        kani::cover!(same_status(&before, &MessageApprovalValue::Executed), "COVER c02_validate already executed");
        kani::cover!(same_status(&before, &MessageApprovalValue::NotApproved), "COVER c02_validate not approved");
        kani::cover!(!same_status(&before, &MessageApprovalValue::NotApproved) && !same_status(&before, &MessageApprovalValue::Executed), "COVER c02_validate approved for something else");
    }
}

#[kani::proof]
fn c02_is_message_approved() {
    let env = Env::default();
    let _h = shim::fresh_host();
    let m = sym_message();

    let r = AxelarGateway::is_message_approved(env.clone(), m.source_chain.clone(), m.message_id.clone(), m.source_address.clone(), m.contract_address.clone(), m.payload_hash);

    let k = approval_key(&m.source_chain, &m.message_id);
    soroban_sdk::obl!(r == same_status(&status_pre(&k), &spec_approval(&env, &m)), "OBL C02.query_approved_agrees: the approved query agrees with the stored record");
    soroban_sdk::obl!(shim::no_effects() && shim::n_auth() == 0, "OBL C02.query_approved_pure");
    kani::cover!(r, "COVER c02_is_approved true");
    kani::cover!(!r, "COVER c02_is_approved false");
}

#[kani::proof]
fn c02_is_message_executed() {
    let env = Env::default();
    let _h = shim::fresh_host();
    let (sc, mid) = (sym_string(), sym_string());

    let r = AxelarGateway::is_message_executed(env.clone(), sc.clone(), mid.clone());

    let k = approval_key(&sc, &mid);
    soroban_sdk::obl!(r == same_status(&status_pre(&k), &MessageApprovalValue::Executed), "OBL C02.query_executed_agrees: the executed query agrees with the stored record");
    soroban_sdk::obl!(shim::no_effects() && shim::n_auth() == 0, "OBL C02.query_executed_pure");
    kani::cover!(r, "COVER c02_is_executed true");
    kani::cover!(!r, "COVER c02_is_executed false");
}

// ------------------------------------------------------------------------------------------------
// C01 / C02  approve_messages  (BOUNDED in the number of messages: the loop mutates state)
// ------------------------------------------------------------------------------------------------
/// ⟦keccak(xdr((ApproveMessages, messages)))⟧
fn spec_approve_data_hash(env: &Env, messages: &Vec<Message>) -> BytesN<32> {
    env.crypto().keccak256(&(CommandType::ApproveMessages, messages.clone()).to_xdr(env)).into()
}
/// ⟦keccak(xdr((RotateSigners, signers)))⟧
fn spec_rotate_data_hash(env: &Env, signers: &WeightedSigners) -> BytesN<32> {
    env.crypto().keccak256(&(CommandType::RotateSigners, signers.clone()).to_xdr(env)).into()
}

/// returns (ok, in-batch duplicate newly approved, two new ids)
fn approve_case(n: usize) -> (bool, bool, bool) {
    let env = Env::default();
    let _h = shim::fresh_host();
    let mut messages: Vec<Message> = Vec::new(&env);
    let ms = [sym_message(), sym_message(), sym_message()];
    let mut i = 0;
    while i < n {
        messages.push_back(ms[i].clone());
        i += 1;
    }
    let proof = symbolic_proof();

    let r = AxelarGateway::approve_messages(env.clone(), messages.clone(), proof.clone());

    let dh = spec_approve_data_hash(&env, &messages);
    // --- C01: the verdict comes from validate_proof over exactly this batch
    soroban_sdk::obl!(
        shim::n_calls() == 1 && shim::internal_called("auth::validate_proof", &(dh, proof.clone())),
        "OBL C01.approve_digest_binds_batch: validate_proof is asked (once) about keccak(xdr((ApproveMessages, exactly this batch))) and this proof"
    );
    soroban_sdk::obl!(dh != spec_rotate_data_hash(&env, &WeightedSigners::symbolic()), "OBL C01.command_kinds_separated: an approval digest is never a rotation digest");
    let vp = unsafe { VP_RESULT };
    match r {
        Ok(()) => {
            soroban_sdk::obl!(matches!(vp, Some(Ok(_))), "OBL C01.approve_only_with_valid_proof: approvals are recorded only if validate_proof accepted");
            soroban_sdk::obl!(n >= 1, "OBL C01.empty_batch_rejected");
            // --- C02: per-message step, in batch order, as a fold over the batch (spec written here):
            //     state of an id = its pre-state unless an earlier message of the batch had the same id
            let keys = [approval_key(&ms[0].source_chain, &ms[0].message_id), approval_key(&ms[1].source_chain, &ms[1].message_id), approval_key(&ms[2].source_chain, &ms[2].message_id)];
            let mut after: [MessageApprovalValue; 3] = [MessageApprovalValue::NotApproved, MessageApprovalValue::NotApproved, MessageApprovalValue::NotApproved];
            let mut fresh = [false, false, false];
            let mut k = 0;
            while k < n {
                // latest earlier message with the same (source chain, message id), if any
                let mut cur = status_pre(&keys[k]);
                let mut j = 0;
                while j < k {
                    if ms[j].source_chain == ms[k].source_chain && ms[j].message_id == ms[k].message_id {
                        cur = after[j].clone();
                    }
                    j += 1;
                }
                fresh[k] = same_status(&cur, &MessageApprovalValue::NotApproved);
                after[k] = if fresh[k] { spec_approval(&env, &ms[k]) } else { cur };
                k += 1;
            }
            // final state of each id = the `after` of its last occurrence
            let mut state_ok = true;
            let mut k = 0;
            while k < n {
                let mut last = true;
                let mut j = k + 1;
                while j < n {
                    if ms[j].source_chain == ms[k].source_chain && ms[j].message_id == ms[k].message_id {
                        last = false;
                    }
                    j += 1;
                }
                if last && !same_status(&status_post(&keys[k]), &after[k]) {
                    state_ok = false;
                }
                k += 1;
            }
            soroban_sdk::obl!(state_ok, "OBL C02.approve_step_state: an unknown id becomes Approved(hash of the message); a known id (also one approved earlier in the same batch) keeps its record");
            let mut expected_events = 0;
            let mut events_ok = true;
            let mut k = 0;
            while k < n {
                if fresh[k] {
                    if !shim::event_is(expected_events, &(Symbol::new(&env, "message_approved"), ms[k].clone()), &()) {
                        events_ok = false;
                    }
                    expected_events += 1;
                }
                k += 1;
            }
            soroban_sdk::obl!(shim::n_events() == expected_events && events_ok, "OBL C02.approve_step_event: exactly one message_approved event per newly approved id, in batch order, none for a known id");
            soroban_sdk::obl!(pers().changed_only(&[Words::of(&keys[0]), Words::of(&keys[1]), Words::of(&keys[2])]) && inst().n_changed() == 0, "OBL C02.approve_frame");
            let same01 = n >= 2 && ms[0].source_chain == ms[1].source_chain && ms[0].message_id == ms[1].message_id;
            (true, same01 && fresh[0], n >= 2 && !same01 && fresh[0] && fresh[1])
        }
        Err(e) => {
            soroban_sdk::obl!(
                match vp {
                    Some(Err(ve)) => e == ve,
                    Some(Ok(_)) => n == 0 && e == ContractError::EmptyMessages,
                    None => false,
                },
                "OBL C01.approve_err_is_proof_err: a rejected proof's error is returned unchanged; otherwise only an empty batch fails"
            );
            soroban_sdk::obl!(
                !(matches!(vp, Some(Ok(_))) && n >= 1),
                "OBL C08.approval_honours_any_retained_set: a non-empty batch is refused only if validate_proof refused the proof — a valid proof from an older, still retained set (latest flag false) approves just like one from the newest set"
            );
            soroban_sdk::obl!(shim::no_external_effects(), "OBL C01.rejected_approval_no_effect");
            (false, false, false)
        }
    }
}
#[kani::proof]
#[kani::stub(crate::auth::validate_proof, validate_proof_contract)]
fn c01_approve_messages_n0_bounded() {
    let (ok, _, _) = approve_case(0);
    kani::cover!(!ok, "COVER approve n0 err");
}
#[kani::proof]
#[kani::stub(crate::auth::validate_proof, validate_proof_contract)]
fn c01_approve_messages_n1_bounded() {
    let (ok, _, _) = approve_case(1);
    kani::cover!(ok, "COVER approve n1 ok");
    kani::cover!(!ok, "COVER approve n1 err");
}
#[kani::proof]
#[kani::stub(crate::auth::validate_proof, validate_proof_contract)]
fn c01_approve_messages_n2_bounded() {
    let (ok, dup, two) = approve_case(2);
    kani::cover!(ok && dup, "COVER approve n2 in-batch duplicate");
    kani::cover!(ok && two, "COVER approve n2 two new ids");
    kani::cover!(!ok, "COVER approve n2 err");
}

/// standalone proof check: passes its arguments through, writes nothing
#[kani::proof]
#[kani::stub(crate::auth::validate_proof, validate_proof_contract)]
fn c01_validate_proof_entry() {
    let env = Env::default();
    let _h = shim::fresh_host();
    let dh: BytesN<32> = BytesN::symbolic();
    let proof = symbolic_proof();
    let r = <AxelarGateway as AxelarGatewayInterface>::validate_proof(&env, dh, proof.clone());
    soroban_sdk::obl!(shim::n_calls() == 1 && shim::internal_call_is(0, "auth::validate_proof", &(dh, proof)), "OBL C01.entry_passes_through: the standalone check asks validate_proof about exactly its arguments");
    soroban_sdk::obl!(Some(r) == unsafe { VP_RESULT }, "OBL C01.entry_returns_verdict");
    soroban_sdk::obl!(shim::no_external_effects() && shim::n_auth() == 0, "OBL C01.entry_read_only");
    kani::cover!(r.is_ok(), "COVER c01_entry ok");
    kani::cover!(r.is_err(), "COVER c01_entry err");
}

// ------------------------------------------------------------------------------------------------
// C03 / C08 / C09 / C06  contract::rotate_signers
// ------------------------------------------------------------------------------------------------
#[kani::proof]
#[kani::stub(crate::auth::validate_proof, validate_proof_contract)]
#[kani::stub(crate::auth::rotate_signers, rotate_signers_contract)]
fn c03_rotate_signers_entry() {
    let env = Env::default();
    let _h = shim::fresh_host();
    let signers = WeightedSigners::symbolic();
    let proof = symbolic_proof();
    let bypass: bool = kani::any();

    let r = <AxelarGateway as AxelarGatewayInterface>::rotate_signers(env.clone(), signers.clone(), proof.clone(), bypass);

    let operator: Option<Address> = inst().pre(&OPERATOR_KEY);
    let dh = spec_rotate_data_hash(&env, &signers);
    let vp = unsafe { VP_RESULT };
    if r.is_ok() {
        soroban_sdk::obl!(
            !bypass || matches!(&operator, Some(op) if shim::authed(op)),
            "OBL C06.bypass_needs_operator: a bypass rotation succeeds only under the authorisation of the operator stored at entry"
        );
        soroban_sdk::obl!(
            shim::internal_called("auth::validate_proof", &(dh, proof.clone())),
            "OBL C03.rotation_digest_binds_set: the proof is checked over keccak(xdr((RotateSigners, exactly this candidate set)))"
        );
        soroban_sdk::obl!(
            match vp {
                Some(Ok(latest)) => bypass || latest,
                _ => false,
            },
            "OBL C08.rotation_needs_latest_or_bypass: a rotation succeeds only with a valid proof, from the latest set unless the operator bypasses"
        );
        soroban_sdk::obl!(
            shim::internal_called("auth::rotate_signers", &(signers.clone(), !bypass)),
            "OBL C09.enforce_is_not_bypass: the set is installed through auth::rotate_signers, once, with enforce_rotation_delay == !bypass"
        );
        soroban_sdk::obl!(wf(&signers), "OBL C03.entry_installs_wellformed_only");
        soroban_sdk::obl!(
            matches!(unsafe { crate::auth::verif::RS_RESULT }, Some(Ok(()))),
            "OBL C03.entry_propagates_refusal: the entry point succeeds only if auth::rotate_signers installed the set; its refusal (which may leave the epoch already advanced, for the host to roll back) is returned, never swallowed"
        );
        kani::cover!(bypass, "COVER c03_entry ok bypass");
        kani::cover!(!bypass, "COVER c03_entry ok latest");
    } else {
        // a refused rotation is an `Err` return (or a trap): the host rolls the frame back (A-ROLLBACK);
        // auth::rotate_signers deliberately relies on that (it bumps the epoch before its duplicate check)
        kani::cover!(matches!(vp, Some(Ok(false))) && !bypass, "COVER c03_entry err not latest");
        kani::cover!(matches!(vp, Some(Err(_))), "COVER c03_entry err invalid proof");
    }
}

// ------------------------------------------------------------------------------------------------
// constructor: establishes the roles, delegates to initialize_auth
// ------------------------------------------------------------------------------------------------
pub fn initialize_auth_contract(_env: Env, domain: BytesN<32>, min_delay: u64, retention: u64, sets: Vec<WeightedSigners>) -> Result<(), ContractError> {
    shim::log_internal("auth::initialize_auth", Words::of(&(domain, min_delay, retention, sets)));
    if kani::any() {
        Ok(())
    } else {
        Err(any_error())
    }
}
#[kani::proof]
#[kani::stub(crate::auth::initialize_auth, initialize_auth_contract)]
fn c06_gateway_constructor() {
    let env = Env::default();
    let _h = shim::fresh_host();
    let (owner, operator) = (Address::symbolic(), Address::symbolic());
    let domain: BytesN<32> = BytesN::symbolic();
    let (d, rt): (u64, u64) = (kani::any(), kani::any());
    let sets: Vec<WeightedSigners> = Vec::abstract_symbolic();
    let r = AxelarGateway::__constructor(env.clone(), owner.clone(), operator.clone(), domain, d, rt, sets.clone());
    if r.is_ok() {
        soroban_sdk::obl!(inst().post::<_, Address>(&OWNER_KEY) == Some(owner), "OBL C06.ctor_owner_set");
        soroban_sdk::obl!(inst().post::<_, Address>(&OPERATOR_KEY) == Some(operator), "OBL C06.ctor_operator_set");
        soroban_sdk::obl!(shim::internal_called("auth::initialize_auth", &(domain, d, rt, sets)), "OBL C06.ctor_delegates_auth_init");
        kani::cover!(true, "COVER gw ctor ok");
    }
}

// ------------------------------------------------------------------------------------------------
// C06 / C15  derive-generated admin entry points of the gateway
// ------------------------------------------------------------------------------------------------
soroban_sdk::harness_ownable!(AxelarGateway, c06_gateway_transfer_ownership);
soroban_sdk::harness_operatable!(AxelarGateway, c06_gateway_transfer_operatorship);
soroban_sdk::harness_upgradable!(AxelarGateway, ContractError, c15_gateway_upgrade, c15_gateway_migrate);

// ------------------------------------------------------------------------------------------------
// C15  axelar_soroban_std::interfaces::migrate with a custom migration (the generic function behind
// every derived `migrate`): the custom migration runs exactly once, and only while the window is open
// ------------------------------------------------------------------------------------------------
static mut MIGRATION_RUNS: u32 = 0;
static mut WINDOW_OPEN_AT_RUN: bool = false;
#[kani::proof]
fn c15_std_migrate_custom_migration() {
    let env = Env::default();
    let _h = shim::fresh_host();
    // a contract-specific migration may rewrite anything, including the owner entry: the authorisation
    // that counts is that of the owner stored when migrate was entered
    let new_owner = Address::symbolic();
    let r = interfaces::migrate::<AxelarGateway>(&env, || unsafe {
        MIGRATION_RUNS += 1;
        WINDOW_OPEN_AT_RUN = inst().post_has(&MIGRATING_KEY);
        interfaces::set_owner(&env, &new_owner);
    });
    let open = inst().pre_has(&MIGRATING_KEY);
    let owner_at_entry: Option<Address> = inst().pre(&OWNER_KEY);
    soroban_sdk::obl!(r.is_err() || matches!(&owner_at_entry, Some(o) if shim::authed(o)), "OBL C15.migrate_needs_owner_at_entry: a migration runs only under the authorisation of the owner stored when it was entered, whatever the custom migration does to the owner entry");
    let runs = unsafe { MIGRATION_RUNS };
    match r {
        Ok(()) => {
            soroban_sdk::obl!(open && runs == 1 && unsafe { WINDOW_OPEN_AT_RUN }, "OBL C15.custom_migration_runs_once_in_window: the custom migration runs exactly once, while the window is still open");
            soroban_sdk::obl!(!inst().post_has(&MIGRATING_KEY), "OBL C15.std_migrate_closes_window");
            kani::cover!(true, "COVER std migrate ok");
        }
        Err(_) => {
            soroban_sdk::obl!(!open && runs == 0, "OBL C15.custom_migration_not_run_when_closed: without a preceding upgrade the migration does not run at all");
            kani::cover!(true, "COVER std migrate err");
        }
    }
}

// thorough tier: larger batches / more initial sets
#[kani::proof]
#[kani::stub(crate::auth::validate_proof, validate_proof_contract)]
fn c01_approve_messages_n3_bounded() {
    let (ok, _, _) = approve_case(3);
    kani::cover!(ok, "COVER approve n3 ok");
    kani::cover!(!ok, "COVER approve n3 err");
}

/// a minimal upgradable contract whose version differs from every crate's in the workspace: the event of
/// the generic `migrate` must carry the *contract's* version
pub struct VersionProbe;
impl interfaces::OwnableInterface for VersionProbe {
    fn owner(env: &Env) -> Address {
        interfaces::owner(env)
    }
    fn transfer_ownership(env: &Env, new_owner: Address) {
        interfaces::transfer_ownership::<Self>(env, new_owner);
    }
}
impl interfaces::UpgradableInterface for VersionProbe {
    fn version(env: &Env) -> String {
        String::from_str(env, "9.9.9-probe")
    }
    fn upgrade(env: &Env, new_wasm_hash: BytesN<32>) {
        interfaces::upgrade::<Self>(env, new_wasm_hash);
    }
}
#[kani::proof]
fn c15_std_migrate_announces_contract_version() {
    let env = Env::default();
    let _h = shim::fresh_host();
    let r = interfaces::migrate::<VersionProbe>(&env, || {});
    if r.is_ok() {
        soroban_sdk::obl!(
            shim::n_events() == 1 && shim::event_is(0, &(soroban_sdk::symbol_short!("upgraded"),), &(String::from_str(&env, "9.9.9-probe"),)),
            "OBL C15.migrate_announces_contract_version: the `upgraded` event carries the migrating contract's own version()"
        );
        kani::cover!(true, "COVER version probe ok");
    }
}

// ------------------------------------------------------------------------------------------------
// C03  the lookup queries through which the epoch <-> set relation is observed
// ------------------------------------------------------------------------------------------------
#[kani::proof]
fn c03_lookup_views() {
    let env = Env::default();
    let _h = shim::fresh_host();
    let hsh: BytesN<32> = BytesN::symbolic();
    let e: u64 = kani::any();
    let r_epoch = <AxelarGateway as AxelarGatewayInterface>::epoch(&env);
    let r_by_hash = <AxelarGateway as AxelarGatewayInterface>::epoch_by_signers_hash(&env, hsh);
    let r_by_epoch = <AxelarGateway as AxelarGatewayInterface>::signers_hash_by_epoch(&env, e);
    soroban_sdk::obl!(inst().pre::<_, u64>(&DataKey::Epoch) == Some(r_epoch), "OBL C03.epoch_view_agrees");
    soroban_sdk::obl!(
        match (pers().pre::<_, u64>(&DataKey::EpochBySignersHash(hsh)), r_by_hash) {
            (Some(x), Ok(y)) => x == y,
            (None, Err(ContractError::InvalidSignersHash)) => true,
            _ => false,
        },
        "OBL C03.epoch_by_hash_view_agrees: the set -> epoch query reports exactly the stored lookup (InvalidSignersHash if none)"
    );
    soroban_sdk::obl!(
        match (pers().pre::<_, BytesN<32>>(&DataKey::SignersHashByEpoch(e)), r_by_epoch) {
            (Some(x), Ok(y)) => x == y,
            (None, Err(ContractError::InvalidEpoch)) => true,
            _ => false,
        },
        "OBL C03.hash_by_epoch_view_agrees: the epoch -> set query reports exactly the stored lookup (InvalidEpoch if none)"
    );
    soroban_sdk::obl!(shim::no_effects() && shim::n_auth() == 0, "OBL C03.lookup_views_pure");
    kani::cover!(r_by_hash.is_ok() && r_by_epoch.is_err(), "COVER lookup views mixed");
}

// ------------------------------------------------------------------------------------------------
// C01  Proof::weighted_signers — BOUNDED companion (3 entries) of the Verus contract
// `C01.weighted_signers.*` (any length): the set a proof is checked against is, entry by entry, the
// list of signers the proof names — nothing dropped, merged or reordered — so the signatures that are
// counted (validate_signatures walks proof.signers) are signatures of members of the looked-up set.
// ------------------------------------------------------------------------------------------------
#[kani::proof]
fn c01_weighted_signers_n3_bounded() {
    use crate::types::ProofSigner;
    let env = Env::default();
    let _h = shim::fresh_host();
    let ps: [ProofSigner; 3] = [<ProofSigner as Wordy>::symbolic(), <ProofSigner as Wordy>::symbolic(), <ProofSigner as Wordy>::symbolic()];
    let mut v: Vec<ProofSigner> = Vec::new(&env);
    v.push_back(ps[0].clone());
    v.push_back(ps[1].clone());
    v.push_back(ps[2].clone());
    let proof = Proof { signers: v, threshold: kani::any(), nonce: BytesN::symbolic() };

    let ws = proof.weighted_signers();

    let same = |i: u32| match ws.signers.get(i) {
        Some(s) => Words::of(&s) == Words::of(&ps[i as usize].signer),
        None => false,
    };
    soroban_sdk::obl!(
        ws.signers.len() == 3 && same(0) && same(1) && same(2),
        "OBL C01.weighted_signers_entrywise: the signer set derived from a proof lists exactly the proof's signers, one per entry, in order (also when entries repeat)"
    );
    soroban_sdk::obl!(ws.threshold == proof.threshold && ws.nonce == proof.nonce, "OBL C01.weighted_signers_keeps_threshold_and_nonce");
    soroban_sdk::obl!(shim::no_effects(), "OBL C01.weighted_signers_pure");
    kani::cover!(Words::of(&ps[0].signer) == Words::of(&ps[1].signer), "COVER c01 weighted_signers repeated entry");
}

/// shim self-test: the length of a registered content is a constant for the model checker (loops
/// bounded by it unwind finitely)
#[kani::proof]
fn shim_content_len_is_concrete() {
    let _h = shim::fresh_host();
    let cb: [u8; 2] = [kani::any(), kani::any()];
    let s = String::with_content(&cb);
    let n = shim::content_len(s.id);
    let mut i = 0;
    let mut c = 0u32;
    while i < n {
        c += 1;
        i += 1;
    }
    assert!(n == 2 && c == 2 && s.len() == 2);
    // a round trip through a buffer gives back the same identity; changed bytes give another one
    let env = Env::default();
    let mut b2 = [0u8; 32];
    let m = s.len() as usize;
    s.copy_into_slice(&mut b2[..m]);
    assert!(b2[0] == cb[0] && b2[1] == cb[1]);
    assert!(String::from_bytes(&env, &b2[..m]) == s);
    b2[..m].make_ascii_lowercase();
    let t = String::from_bytes(&env, &b2[..m]);
    assert!((t == s) == (!cb[0].is_ascii_uppercase() && !cb[1].is_ascii_uppercase()));
}
