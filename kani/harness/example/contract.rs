// Contract and proof harness for contracts/example/src/contract.rs.
use super::*;
// named explicitly: the harness must not depend on which of these the file under verification happens to import
use crate::event;
use axelar_gas_service::AxelarGasServiceClient;
use axelar_gateway::AxelarGatewayMessagingClient;
use axelar_soroban_std::types::Token;
use soroban_sdk::contract;
use soroban_sdk::contractimpl;
use soroban_sdk::panic_with_error;
use soroban_sdk::Address;
use soroban_sdk::Bytes;
use soroban_sdk::Env;
use soroban_sdk::String;
use crate::storage_types::DataKey;
use axelar_gateway::executable::AxelarExecutableInterface;
use soroban_sdk::shim::{self, inst, pers, temp, Wordy, Words};
use soroban_sdk::{BytesN, Symbol};

#[kani::proof]
fn c16_example_execute() {
    let env = Env::default();
    let _h = shim::fresh_host();
    let me = env.current_contract_address();
    let (sc, mid, sa) = (String::symbolic(), String::symbolic(), String::symbolic());
    let payload = Bytes::symbolic();

    Example::execute(env.clone(), sc.clone(), mid.clone(), sa.clone(), payload.clone());

    let gateway: Option<Address> = inst().pre(&DataKey::Gateway);
    let ph: BytesN<32> = env.crypto().keccak256(&payload).into();
    soroban_sdk::obl!(
        matches!(&gateway, Some(g) if shim::n_calls() == 1 && shim::call_is(0, g, "validate_message", &(me.clone(), sc.clone(), mid.clone(), sa.clone(), ph))),
        "OBL C16.example_asks_gateway: the configured gateway is asked to consume exactly (this app, source chain, message id, source address, keccak256(payload))"
    );
    soroban_sdk::obl!(
        shim::n_calls() == 1 && shim::call_ret::<bool>(0),
        "OBL C16.example_validates: the app's effects happen only if the gateway consumed an approval (validate_message returned true)"
    );
    soroban_sdk::obl!(
        shim::n_events() == 1 && shim::event_is(0, &(Symbol::new(&env, "executed"), sc.clone(), mid.clone(), sa.clone()), &(payload.clone(),)),
        "OBL C16.example_effect_exact: one `executed` event with the delivered values"
    );
    kani::cover!(true, "COVER example execute returned");
}

#[kani::proof]
fn c07_example_send() {
    let env = Env::default();
    let _h = shim::fresh_host();
    let me = env.current_contract_address();
    let caller = Address::symbolic();
    let (chain, dest) = (String::symbolic(), String::symbolic());
    let message = Bytes::symbolic();
    let gas_token = Token { address: Address::symbolic(), amount: kani::any() };

    Example::send(env.clone(), caller.clone(), chain.clone(), dest.clone(), message.clone(), gas_token.clone());

    let gateway: Option<Address> = inst().pre(&DataKey::Gateway);
    let gas: Option<Address> = inst().pre(&DataKey::GasService);
    soroban_sdk::obl!(shim::authed(&caller), "OBL C07.example_send_needs_caller: gas is charged to `caller` only under the caller's authorisation");
    soroban_sdk::obl!(
        matches!((&gateway, &gas), (Some(gw), Some(gs)) if shim::n_calls() == 2
            && shim::called(gs, "pay_gas", &(me.clone(), chain.clone(), dest.clone(), message.clone(), caller.clone(), gas_token.clone(), Bytes::new(&env)))
            && shim::called(gw, "call_contract", &(me.clone(), chain.clone(), dest.clone(), message.clone()))),
        "OBL C07.example_send_calls: pays gas from the caller and sends as itself, same destination and payload"
    );
    kani::cover!(true, "COVER example send returned");
}
