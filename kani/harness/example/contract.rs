// harness module (child of the mirrored module)
