// Mirror of @REPO@/contracts/upgrader/src/lib.rs.
#![allow(dead_code, unused_imports, clippy::all)]
mod contract {
    include!("@REPO@/contracts/upgrader/src/contract.rs");
    #[cfg(kani)]
    #[path = "@VERIF@/kani/harness/upgrader/contract.rs"]
    mod verif;
}
#[path = "@REPO@/contracts/upgrader/src/error.rs"]
pub mod error;
pub use contract::Upgrader;
