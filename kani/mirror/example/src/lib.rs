// Mirror of @REPO@/contracts/example/src/lib.rs.
#![allow(dead_code, unused_imports, clippy::all)]
mod contract {
    include!("@REPO@/contracts/example/src/contract.rs");
    #[cfg(kani)]
    #[path = "@VERIF@/kani/harness/example/contract.rs"]
    mod verif;
}
#[path = "@REPO@/contracts/example/src/event.rs"]
mod event;
#[path = "@REPO@/contracts/example/src/storage_types.rs"]
mod storage_types;
pub use contract::Example;
