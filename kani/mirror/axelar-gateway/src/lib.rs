// Mirror of @REPO@/contracts/axelar-gateway/src/lib.rs: same module tree (non-`library` branch of
// its cfg_if), every module is the repository's file, compiled unmodified.  Dropped: #![no_std],
// feature switches, #[cfg(test)] / testutils modules.  Harnesses are child modules (`verif`).
#![allow(dead_code, unused_imports, clippy::all)]
#[path = "@REPO@/contracts/axelar-gateway/src/error.rs"]
pub mod error;
pub mod executable {
    include!("@REPO@/contracts/axelar-gateway/src/executable.rs");
    #[cfg(kani)]
    #[path = "@VERIF@/kani/harness/gateway/executable.rs"]
    mod verif;
}
#[path = "@REPO@/contracts/axelar-gateway/src/messaging_interface.rs"]
mod messaging_interface;
pub mod types {
    include!("@REPO@/contracts/axelar-gateway/src/types.rs");
    #[cfg(kani)]
    #[path = "@VERIF@/kani/harness/gateway/types.rs"]
    pub mod verif;
}
pub use messaging_interface::{AxelarGatewayMessagingClient, AxelarGatewayMessagingInterface};
#[path = "@REPO@/contracts/axelar-gateway/src/interface.rs"]
mod interface;
pub use interface::{AxelarGatewayClient, AxelarGatewayInterface};
#[path = "@REPO@/contracts/axelar-gateway/src/event.rs"]
mod event;
#[path = "@REPO@/contracts/axelar-gateway/src/storage_types.rs"]
mod storage_types;
mod auth {
    include!("@REPO@/contracts/axelar-gateway/src/auth.rs");
    #[cfg(kani)]
    #[path = "@VERIF@/kani/harness/gateway/auth.rs"]
    pub mod verif;
}
mod contract {
    include!("@REPO@/contracts/axelar-gateway/src/contract.rs");
    #[cfg(kani)]
    #[path = "@VERIF@/kani/harness/gateway/contract.rs"]
    mod verif;
}
pub use contract::AxelarGateway;
