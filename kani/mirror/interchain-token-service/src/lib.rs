// Mirror of @REPO@/contracts/interchain-token-service/src/lib.rs (non-`library` branch).
#![allow(dead_code, unused_imports, clippy::all)]
#[path = "@REPO@/contracts/interchain-token-service/src/error.rs"]
pub mod error;
#[path = "@REPO@/contracts/interchain-token-service/src/executable.rs"]
pub mod executable;
#[path = "@REPO@/contracts/interchain-token-service/src/interface.rs"]
mod interface;
pub use interface::{InterchainTokenServiceClient, InterchainTokenServiceInterface};
#[path = "@REPO@/contracts/interchain-token-service/src/types.rs"]
pub mod types;
mod abi {
    include!("@REPO@/contracts/interchain-token-service/src/abi.rs");
    #[cfg(kani)]
    #[path = "@VERIF@/kani/harness/its/abi.rs"]
    pub mod verif;
}
#[path = "@REPO@/contracts/interchain-token-service/src/event.rs"]
pub mod event;
#[path = "@REPO@/contracts/interchain-token-service/src/storage_types.rs"]
mod storage_types;
mod token_handler {
    include!("@REPO@/contracts/interchain-token-service/src/token_handler.rs");
    #[cfg(kani)]
    #[path = "@VERIF@/kani/harness/its/token_handler.rs"]
    pub mod verif;
}
mod contract {
    include!("@REPO@/contracts/interchain-token-service/src/contract.rs");
    #[cfg(kani)]
    #[path = "@VERIF@/kani/harness/its/contract.rs"]
    mod verif;
}
pub use contract::InterchainTokenService;
