// (API-ONLY UNIT: key-agnostic scenario harnesses) Mirror of @REPO@/contracts/axelar-operators/src/lib.rs.
#![allow(dead_code, unused_imports, clippy::all)]
#[path = "@REPO@/contracts/axelar-operators/src/event.rs"]
mod event;
#[path = "@REPO@/contracts/axelar-operators/src/storage_types.rs"]
mod storage_types;
mod contract {
    include!("@REPO@/contracts/axelar-operators/src/contract.rs");
    #[cfg(kani)]
    #[path = "@VERIF@/kani/harness/operators_api/contract.rs"]
    mod verif;
}
#[path = "@REPO@/contracts/axelar-operators/src/error.rs"]
pub mod error;
pub use contract::AxelarOperators;
