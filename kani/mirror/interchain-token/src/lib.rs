// Mirror of @REPO@/contracts/interchain-token/src/lib.rs (non-`library` branch).
#![allow(dead_code, unused_imports, clippy::all)]
#[path = "@REPO@/contracts/interchain-token/src/error.rs"]
pub mod error;
#[path = "@REPO@/contracts/interchain-token/src/interface.rs"]
mod interface;
pub use interface::{InterchainTokenClient, InterchainTokenInterface};
#[path = "@REPO@/contracts/interchain-token/src/event.rs"]
mod event;
#[path = "@REPO@/contracts/interchain-token/src/storage_types.rs"]
mod storage_types;
mod contract {
    include!("@REPO@/contracts/interchain-token/src/contract.rs");
    #[cfg(kani)]
    #[path = "@VERIF@/kani/harness/token/contract.rs"]
    mod verif;
}
pub use contract::InterchainToken;
