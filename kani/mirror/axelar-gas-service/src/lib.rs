// Mirror of @REPO@/contracts/axelar-gas-service/src/lib.rs (non-`library` branch).
#![allow(dead_code, unused_imports, clippy::all)]
#[path = "@REPO@/contracts/axelar-gas-service/src/error.rs"]
pub mod error;
#[path = "@REPO@/contracts/axelar-gas-service/src/interface.rs"]
mod interface;
pub use interface::{AxelarGasServiceClient, AxelarGasServiceInterface};
#[path = "@REPO@/contracts/axelar-gas-service/src/event.rs"]
mod event;
#[path = "@REPO@/contracts/axelar-gas-service/src/storage_types.rs"]
mod storage_types;
mod contract {
    include!("@REPO@/contracts/axelar-gas-service/src/contract.rs");
    #[cfg(kani)]
    #[path = "@VERIF@/kani/harness/gas_service/contract.rs"]
    mod verif;
}
pub use contract::AxelarGasService;
