// (API-ONLY UNIT) Mirror of @REPO@/contracts/axelar-gateway/src/lib.rs: same module tree (non-`library` branch of
// its cfg_if), every module is the repository's file, compiled unmodified.  Dropped: #![no_std],
// feature switches, #[cfg(test)] / testutils modules.  Harnesses are child modules (`verif`).
#![allow(dead_code, unused_imports, clippy::all)]
#[path = "@REPO@/contracts/axelar-gateway/src/error.rs"]
pub mod error;
pub mod executable {
    include!("@REPO@/contracts/axelar-gateway/src/executable.rs");
}
#[path = "@REPO@/contracts/axelar-gateway/src/messaging_interface.rs"]
mod messaging_interface;
pub mod types {
    include!("@REPO@/contracts/axelar-gateway/src/types.rs");
}
pub use messaging_interface::{AxelarGatewayMessagingClient, AxelarGatewayMessagingInterface};
#[path = "@REPO@/contracts/axelar-gateway/src/interface.rs"]
mod interface;
pub use interface::{AxelarGatewayClient, AxelarGatewayInterface};
#[path = "@REPO@/contracts/axelar-gateway/src/event.rs"]
mod event;
#[path = "@REPO@/contracts/axelar-gateway/src/storage_types.rs"]
mod storage_types;
mod auth {
    include!("@REPO@/contracts/axelar-gateway/src/auth.rs");
}
mod contract {
    include!("@REPO@/contracts/axelar-gateway/src/contract.rs");
    // key-agnostic scenario harnesses: only the exported entry points and the shim are named, so this
    // unit still compiles when a change gives the storage keys another type or shape
    #[cfg(kani)]
    #[path = "@VERIF@/kani/harness/gateway_api/contract.rs"]
    mod verif;
}
pub use contract::AxelarGateway;
